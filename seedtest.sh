#!/bin/bash
# usage: seedtest.sh <seed dir name> <property id>...
# Runs the quick checks against a seeded change WITHOUT touching /repo or /verif/evidence:
# the change is applied to a scratch worktree of /repo's HEAD plus /repo's uncommitted
# contract files, and govc is pointed at it (VERIF_REPO) with a scratch output root
# (VERIF_ROOT: props, library contracts and known findings are those of /verif).
d=/verif/seeded/$1; shift
id=$$
wt=/tmp/seedrepo_$id
root=/tmp/seedroot_$id
trap 'git -C /repo worktree remove --force $wt >/dev/null 2>&1; rm -rf $wt $root' EXIT
git -C /repo worktree add --detach $wt HEAD >/dev/null 2>&1 || exit 3
# carry over uncommitted contract edits (comment-only files)
(cd /repo && git diff -- '*verif_contracts.go') | (cd $wt && git apply --allow-empty 2>/dev/null)
git -C $wt apply "$d/patch.diff" || { echo "PATCH-FAILED $d"; exit 3; }
mkdir -p $root
ln -s /verif/props.json $root/props.json
ln -s /verif/contracts $root/contracts
ln -s /verif/known_findings.txt $root/known_findings.txt
for p in "$@"; do
  (cd /verif && VERIF_REPO=$wt VERIF_ROOT=$root bin/govc check -property $p -tier quick | grep -v "^property" | sed "s|$root|/verif|g; s|$wt|/repo|g" | cut -c1-220 | head -8; echo "  -> $p done")
done
