#!/bin/sh
# usage: seedtest.sh <seed dir name> <property id>...
# Applies a seeded mutation to /repo, runs the quick checks, and reverts.
d=/verif/seeded/$1; shift
git -C /repo apply "$d/patch.diff" || exit 3
for p in "$@"; do
  (cd /verif && bin/govc check -property $p -tier quick | grep -v "^property" | cut -c1-220 | head -8; echo "  -> $p exit=$?")
done
git -C /repo checkout -- .
