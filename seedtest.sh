#!/bin/sh
# usage: seedtest.sh <seed dir name> <property id>...
# Applies a seeded mutation to /repo, runs the quick checks, and reverts.
# The patch is reverted with `git apply -R` (never `checkout -- .`, which would also throw away uncommitted contract edits).
# The evidence files are saved and restored (evidence must describe the unchanged tree).
d=/verif/seeded/$1; shift
tmp=$(mktemp -d)
cp -r /verif/evidence "$tmp/evidence"
git -C /repo apply "$d/patch.diff" || { rm -rf "$tmp"; exit 3; }
for p in "$@"; do
  (cd /verif && bin/govc check -property $p -tier quick | grep -v "^property" | cut -c1-220 | head -8; echo "  -> $p done")
done
git -C /repo apply -R "$d/patch.diff" || echo "WARNING: could not revert $d/patch.diff"
rm -rf /verif/evidence && cp -r "$tmp/evidence" /verif/evidence && rm -rf "$tmp"
