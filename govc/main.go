package main

import (
	"path/filepath"
	"flag"
	"fmt"
	"os"
	"strings"
)

func main() {
	if len(os.Args) < 2 {
		fmt.Fprintln(os.Stderr, "usage: govc <verify|check|selftest> ...")
		os.Exit(2)
	}
	switch os.Args[1] {
	case "verify":
		cmdVerify(os.Args[2:])
	case "check":
		cmdCheck(os.Args[2:])
	default:
		fmt.Fprintln(os.Stderr, "unknown command", os.Args[1])
		os.Exit(2)
	}
}

func verifRoot() string {
	if r := os.Getenv("VERIF_ROOT"); r != "" {
		return r
	}
	// the directory above bin/ (so that a snapshot of /verif works on its own files)
	if exe, err := os.Executable(); err == nil {
		root := filepath.Dir(filepath.Dir(exe))
		if _, err := os.Stat(filepath.Join(root, "props.json")); err == nil {
			return root
		}
	}
	return "/verif"
}

func repoRoot() string {
	if r := os.Getenv("VERIF_REPO"); r != "" {
		return r
	}
	return "/repo"
}

// cmdVerify: developer command — verify selected functions of one package.
func cmdVerify(args []string) {
	fs := flag.NewFlagSet("verify", flag.ExitOnError)
	pkg := fs.String("pkg", "", "package directory relative to the repo, e.g. lib/rac")
	funcs := fs.String("func", "", "comma-separated contract keys (default: every function with a contract)")
	timeout := fs.Int("timeout", 10, "per-obligation solver timeout (s)")
	keep := fs.Bool("keep", false, "keep SMT files")
	seedFlag := fs.Int("seed", 0, "solver seed")
	verbose := fs.Bool("v", false, "list every obligation")
	fs.Parse(args)
	prog, err := LoadProg(repoRoot(), strings.Split(*pkg, ","), verifRoot()+"/contracts/lib.contracts")
	if err != nil {
		fmt.Fprintln(os.Stderr, "load:", err)
		os.Exit(2)
	}
	work, _ := os.MkdirTemp("", "govc")
	if !*keep {
		defer os.RemoveAll(work)
	} else {
		fmt.Println("smt files in", work)
	}
	bad := 0
	for _, dir := range strings.Split(*pkg, ",") {
		pkgPath := modulePath + "/" + dir
		cf := prog.contracts[pkgPath]
		if cf == nil {
			fmt.Println("no contract file for", pkgPath)
			continue
		}
		keys := cf.Order
		if *funcs != "" {
			keys = strings.Split(*funcs, ",")
		}
		for _, key := range keys {
			fc := cf.Funcs[key]
			if fc == nil || strings.HasPrefix(key, "iface ") || strings.HasPrefix(key, "fv ") {
				if fc == nil {
					fmt.Println("no contract for", key)
				}
				continue
			}
			var ress []*FuncResult
			if fc.Lemma {
				ress = append(ress, prog.VerifyLemma(fc, cf, cf.PkgTypes.Name(), "quick"))
			} else {
				items, found := prog.Expand(pkgPath, key, fc)
				if !found {
					fmt.Printf("STALE-CONTRACT %s: function not found\n", key)
					bad++
					continue
				}
				for _, it := range items {
					ress = append(ress, prog.VerifyFunc(it.fn, fc, cf, "quick"))
				}
			}
			for _, res := range ress {
				if res.Unsupported != "" {
					fmt.Printf("%-50s UNSUPPORTED: %s\n", res.Name, res.Unsupported)
					bad++
					continue
				}
				if res.ContractErr != "" {
					fmt.Printf("%-50s CONTRACT-ERROR: %s\n", res.Name, res.ContractErr)
					bad++
					continue
				}
				if res.Trusted != "" {
					fmt.Printf("%-50s trusted: %s\n", res.Name, res.Trusted)
					continue
				}
				DischargeAll(res.Obls, work+"/"+sanitize(res.Name), *timeout, *seedFlag, 8)
				ok, fail := 0, 0
				for _, o := range res.Obls {
					good := (o.Status == "unsat" && !o.ExpectSat) || (o.Status != "unsat" && o.ExpectSat)
					if good {
						ok++
					} else {
						fail++
					}
					if *verbose || !good {
						fmt.Printf("    %-70s %-8s %-7s %5dms  %s  %s\n", o.Name, o.Status, o.Solver, o.Ms, o.Src, truncate(o.Desc, 90))
						if !good && o.Status != "timeout" && o.Status != "unknown" {
							for _, l := range strings.Split(strings.TrimSpace(o.Output), "\n") {
								if len(l) > 200 {
									l = l[:200]
								}
								fmt.Println("        " + l)
							}
						}
					}
				}
				fmt.Printf("%-50s mode=%s obligations=%d discharged=%d failed=%d\n", res.Name, res.Mode, len(res.Obls), ok, fail)
				for _, n := range res.Notes {
					fmt.Println("    note:", n)
				}
				bad += fail
			}
		}
	}
	if bad > 0 {
		os.Exit(1)
	}
}

