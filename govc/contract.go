package main

// Parser for the //@ contract files (one per package, comment-only, guarded by
// the `verif` build tag).

import (
	"fmt"
	"go/ast"
	"go/parser"
	"go/token"
	"go/types"
	"os"
	"strconv"
	"strings"
)

type Clause struct {
	Src  string
	Expr ast.Expr
	Line int
	Name string // optional label: "ensures[name] expr"
}

type LoopSpec struct {
	Invariants []Clause
	Decreases  []Clause
	Unroll     int // >0: unroll at most this many iterations, with unwinding assertion
	Uses       []string // "loop k uses a b": parameterised lemmas assumed from this loop head on
	Cut        bool // "loop k cutcontext": at the loop head forget what was assumed in the body so far (the invariants carry what is needed)
}

type CallAssert struct {
	Callee  string
	K       int
	C       Clause
	Matched bool // the directive was applied to some call (an unmatched directive is a contract error)
}

type FuncContract struct {
	Key        string // "(*T).Name", "(T).Name" or "Name"
	Mode       string // "bv" | "int" | ""
	Requires   []Clause
	Ensures    []Clause
	Modifies   []Clause
	ModAll     bool // modifies *
	Decreases  []Clause
	Loops      map[int]*LoopSpec
	CallAssert []CallAssert
	CallAssume []CallAssert // assume@after callee#k expr
	RetAssertK []int        // parallel to RetAssert: 0 = every return, k = only the k-th return in source order (assert@ret#k)
	RetAssert  []Clause     // assert@ret expr: holds at every return point (locals in scope; `result`, `result0`.. name the returned values)
	Inline     bool
	Trusted    string
	Pure       bool
	NilableRcv bool
	MayPanic   []Clause
	NoOverflow bool // bv mode: additionally require no wrap on + - * of machine ints
	Assume     []Clause
	Line       int
	Used       bool
	Props      []string // property ids this function is claimed under ("prop C13")
	Lemma      bool
	Tier       string // "thorough": only checked in the thorough tier
	Expand     bool     // lemma: prove by expanding quantifiers over constant ranges
	Uses       []string // lemmas assumed in this function
	Wraps      map[string]bool // int mode: operators with modular (wrapping) semantics on unsigned types: shl add sub mul
	WrapsInto  map[string]map[string]bool // "wraps add into x": only operations whose result is stored directly into local x
	Induct     string // lemma: proved by induction on this (integer) parameter
	Have       []Clause   // lemma: intermediate steps, proved in order before the ensures clauses, not exported
	Triggers   [][]Clause // lemma: explicit (multi-)patterns for the universal closure
	ParamNames []string // wildcard blocks ("f$*"): only closures with exactly these parameter names
	Params     []SpecParam // for lemmas
}

type SpecParam struct {
	Name string
	Type ast.Expr
}

type SpecFunc struct {
	Name    string
	Params  []SpecParam
	Result  ast.Expr
	Body    ast.Expr // nil for ghost (uninterpreted)
	Line    int
	Rec     bool
	Opaque  bool // ospec: axiomatised as an uninterpreted function with a triggered definition
	Heap    bool // ghostfield: heap-resident ghost field indexed by a pointer
	BodySrc string
}

type Axiom struct {
	Name string
	C    Clause
	Vars []SpecParam
}

type ContractFile struct {
	PkgTypes *types.Package
	Path    string
	Funcs   map[string]*FuncContract
	Order   []string
	Specs   map[string]*SpecFunc
	Axioms  []Axiom
	Default struct {
		Mode     string
		HeapArgs string // "boxed": array-valued heap arguments of opaque functions and lemma closures are passed as Int handles
	}
	Scan []string // every axiom / trusted / assume line, for the evidence
}

func parseExprSrc(src string, path string, line int) (ast.Expr, error) {
	e, err := parser.ParseExpr(src)
	if err != nil {
		return nil, fmt.Errorf("%s:%d: cannot parse %q: %v", path, line, src, err)
	}
	return e, nil
}

func parseParams(src string, path string, line int) ([]SpecParam, error) {
	// src like "b *writeBuffer, k int"
	src = strings.TrimSpace(src)
	if src == "" {
		return nil, nil
	}
	e, err := parser.ParseExpr("func(" + src + "){}")
	if err != nil {
		return nil, fmt.Errorf("%s:%d: cannot parse params %q: %v", path, line, src, err)
	}
	fl := e.(*ast.FuncLit)
	var ps []SpecParam
	for _, f := range fl.Type.Params.List {
		for _, n := range f.Names {
			ps = append(ps, SpecParam{Name: n.Name, Type: f.Type})
		}
	}
	return ps, nil
}

func splitLabel(rest string) (label, body string) {
	// "[name] expr"
	rest = strings.TrimSpace(rest)
	if strings.HasPrefix(rest, "[") {
		if i := strings.Index(rest, "]"); i > 0 {
			return rest[1:i], strings.TrimSpace(rest[i+1:])
		}
	}
	return "", rest
}

func ParseContractFile(path string) (*ContractFile, error) {
	data, err := os.ReadFile(path)
	if err != nil {
		return nil, err
	}
	cf := &ContractFile{Path: path, Funcs: map[string]*FuncContract{}, Specs: map[string]*SpecFunc{}}
	// Gather logical directives: a //@ line, with continuation lines that
	// start with "//@   " followed by something that is not a keyword… we use
	// an explicit rule: a line whose text after "//@" starts with at least
	// four spaces continues the previous directive.
	type dir struct {
		text string
		line int
	}
	var dirs []dir
	for i, raw := range strings.Split(string(data), "\n") {
		l := strings.TrimSpace(raw)
		if !strings.HasPrefix(l, "//@") {
			continue
		}
		body := l[3:]
		if strings.HasPrefix(body, "     ") && len(dirs) > 0 {
			dirs[len(dirs)-1].text += " " + strings.TrimSpace(body)
			continue
		}
		body = strings.TrimSpace(body)
		if body == "" {
			continue
		}
		dirs = append(dirs, dir{body, i + 1})
	}
	var cur *FuncContract
	mk := func(src string, line int) (Clause, error) {
		label, body := splitLabel(src)
		e, err := parseExprSrc(body, path, line)
		return Clause{Src: body, Expr: e, Line: line, Name: label}, err
	}
	for _, d := range dirs {
		kw, rest, _ := strings.Cut(d.text, " ")
		rest = strings.TrimSpace(rest)
		if i := strings.Index(kw, "["); i > 0 && strings.HasSuffix(kw, "]") {
			rest = kw[i:] + " " + rest
			kw = kw[:i]
		}
		retK := 0
		if strings.HasPrefix(kw, "assert@ret#") {
			if strings.TrimPrefix(kw, "assert@ret#") == "last" {
				retK = -1 // the last return in source order, whatever its ordinal
			} else {
				retK, _ = strconv.Atoi(strings.TrimPrefix(kw, "assert@ret#"))
			}
			kw = "assert@ret"
		}
		switch kw {
		case "default":
			k2, v, _ := strings.Cut(rest, " ")
			if k2 == "mode" {
				cf.Default.Mode = strings.TrimSpace(v)
			}
			if k2 == "heapargs" {
				cf.Default.HeapArgs = strings.TrimSpace(v)
			}
		case "spec", "ospec", "ghost", "ghostfield":
			// spec name(params) T = expr   |  ghost name(params) T
			open := strings.Index(rest, "(")
			if open < 0 {
				return nil, fmt.Errorf("%s:%d: bad spec", path, d.line)
			}
			name := strings.TrimSpace(rest[:open])
			depth, close := 0, -1
			for i := open; i < len(rest); i++ {
				if rest[i] == '(' {
					depth++
				} else if rest[i] == ')' {
					depth--
					if depth == 0 {
						close = i
						break
					}
				}
			}
			if close < 0 {
				return nil, fmt.Errorf("%s:%d: bad spec params", path, d.line)
			}
			ps, err := parseParams(rest[open+1:close], path, d.line)
			if err != nil {
				return nil, err
			}
			tail := strings.TrimSpace(rest[close+1:])
			sf := &SpecFunc{Name: name, Params: ps, Line: d.line}
			tsrc, bsrc, has := strings.Cut(tail, " = ")
			if !has {
				tsrc = tail
			}
			te, err := parseExprSrc(strings.TrimSpace(tsrc), path, d.line)
			if err != nil {
				return nil, err
			}
			sf.Result = te
			if has {
				be, err := parseExprSrc(bsrc, path, d.line)
				if err != nil {
					return nil, err
				}
				sf.Body = be
				sf.BodySrc = bsrc
			} else if kw == "spec" || kw == "ospec" {
				return nil, fmt.Errorf("%s:%d: spec without body", path, d.line)
			}
			sf.Heap = kw == "ghostfield"
			sf.Opaque = kw == "ospec"
			if kw == "ghost" || kw == "ghostfield" {
				cf.Scan = append(cf.Scan, fmt.Sprintf("ghost (uninterpreted) %s", name))
			}
			cf.Specs[name] = sf
			cur = nil
		case "axiom":
			// axiom name(params): expr
			head, body, ok := strings.Cut(rest, ":")
			if !ok {
				return nil, fmt.Errorf("%s:%d: bad axiom", path, d.line)
			}
			var vars []SpecParam
			name := strings.TrimSpace(head)
			if i := strings.Index(head, "("); i >= 0 {
				name = strings.TrimSpace(head[:i])
				j := strings.LastIndex(head, ")")
				ps, err := parseParams(head[i+1:j], path, d.line)
				if err != nil {
					return nil, err
				}
				vars = ps
			}
			c, err := mk(body, d.line)
			if err != nil {
				return nil, err
			}
			cf.Axioms = append(cf.Axioms, Axiom{Name: name, C: c, Vars: vars})
			cf.Scan = append(cf.Scan, fmt.Sprintf("axiom %s: %s", name, strings.TrimSpace(body)))
			cur = nil
		case "func", "lemma":
			key := rest
			var params []SpecParam
			if kw == "lemma" {
				if i := strings.Index(rest, "("); i >= 0 {
					key = strings.TrimSpace(rest[:i])
					j := strings.LastIndex(rest, ")")
					ps, err := parseParams(rest[i+1:j], path, d.line)
					if err != nil {
						return nil, err
					}
					params = ps
				}
				key = "lemma:" + key
			}
			cur = &FuncContract{Key: key, Loops: map[int]*LoopSpec{}, Line: d.line, Lemma: kw == "lemma", Params: params}
			if _, dup := cf.Funcs[key]; dup {
				return nil, fmt.Errorf("%s:%d: duplicate contract for %s", path, d.line, key)
			}
			cf.Funcs[key] = cur
			cf.Order = append(cf.Order, key)
		default:
			if cur == nil {
				return nil, fmt.Errorf("%s:%d: directive %q outside a func block", path, d.line, kw)
			}
			switch kw {
			case "mode":
				cur.Mode = rest
			case "expand":
				cur.Expand = true
			case "induct":
				cur.Induct = strings.TrimSpace(rest)
			case "wraps":
				if i := strings.Index(rest, " into "); i >= 0 {
					if cur.WrapsInto == nil {
						cur.WrapsInto = map[string]map[string]bool{}
					}
					for _, w := range strings.Fields(rest[:i]) {
						if cur.WrapsInto[w] == nil {
							cur.WrapsInto[w] = map[string]bool{}
						}
						for _, l := range strings.Fields(strings.ReplaceAll(rest[i+6:], ",", " ")) {
							cur.WrapsInto[w][l] = true
						}
					}
					break
				}
				if cur.Wraps == nil {
					cur.Wraps = map[string]bool{}
				}
				for _, w := range strings.Fields(rest) {
					cur.Wraps[w] = true
				}
			case "params":
				cur.ParamNames = strings.Fields(rest)
			case "xuses":
			case "uses":
				cur.Uses = append(cur.Uses, strings.Fields(rest)...)
			case "tier":
				cur.Tier = rest
			case "prop":
				cur.Props = append(cur.Props, strings.Fields(rest)...)
			case "requires":
				c, err := mk(rest, d.line)
				if err != nil {
					return nil, err
				}
				cur.Requires = append(cur.Requires, splitClause(c)...)
			case "ensures":
				c, err := mk(rest, d.line)
				if err != nil {
					return nil, err
				}
				cur.Ensures = append(cur.Ensures, splitClause(c)...)
			case "have":
				c, err := mk(rest, d.line)
				if err != nil {
					return nil, err
				}
				cur.Have = append(cur.Have, c)
			case "trigger":
				var tr []Clause
				for _, part := range splitTop(rest) {
					c, err := mk(part, d.line)
					if err != nil {
						return nil, err
					}
					tr = append(tr, c)
				}
				cur.Triggers = append(cur.Triggers, tr)
			case "assume":
				c, err := mk(rest, d.line)
				if err != nil {
					return nil, err
				}
				cur.Assume = append(cur.Assume, c)
				cf.Scan = append(cf.Scan, fmt.Sprintf("assume in %s: %s", cur.Key, rest))
			case "modifies":
				if rest == "*" {
					cur.ModAll = true
					break
				}
				for _, part := range splitTop(rest) {
					c, err := mk(part, d.line)
					if err != nil {
						return nil, err
					}
					cur.Modifies = append(cur.Modifies, c)
				}
			case "decreases":
				for _, part := range splitTop(rest) {
					c, err := mk(part, d.line)
					if err != nil {
						return nil, err
					}
					cur.Decreases = append(cur.Decreases, c)
				}
			case "loop":
				f := strings.Fields(rest)
				if len(f) < 2 {
					return nil, fmt.Errorf("%s:%d: bad loop directive", path, d.line)
				}
				k, err := strconv.Atoi(f[0])
				if err != nil {
					return nil, fmt.Errorf("%s:%d: bad loop ordinal", path, d.line)
				}
				ls := cur.Loops[k]
				if ls == nil {
					ls = &LoopSpec{}
					cur.Loops[k] = ls
				}
				body := strings.TrimSpace(strings.TrimPrefix(strings.TrimSpace(strings.TrimPrefix(rest, f[0])), f[1]))
				switch f[1] {
				case "invariant":
					c, err := mk(body, d.line)
					if err != nil {
						return nil, err
					}
					ls.Invariants = append(ls.Invariants, splitClause(c)...)
				case "decreases":
					for _, part := range splitTop(body) {
						c, err := mk(part, d.line)
						if err != nil {
							return nil, err
						}
						ls.Decreases = append(ls.Decreases, c)
					}
				case "cutcontext":
					ls.Cut = true
				case "uses":
					ls.Uses = append(ls.Uses, strings.Fields(body)...)
				case "unroll":
					n, err := strconv.Atoi(body)
					if err != nil {
						return nil, fmt.Errorf("%s:%d: bad unroll count", path, d.line)
					}
					ls.Unroll = n
				default:
					return nil, fmt.Errorf("%s:%d: unknown loop directive %q", path, d.line, f[1])
				}
			case "assert@call":
				f := strings.Fields(rest)
				callee, ks, _ := strings.Cut(f[0], "#")
				k, _ := strconv.Atoi(ks)
				body := strings.TrimSpace(strings.TrimPrefix(rest, f[0]))
				c, err := mk(body, d.line)
				if err != nil {
					return nil, err
				}
				cur.CallAssert = append(cur.CallAssert, CallAssert{Callee: callee, K: k, C: c})
			case "assert@ret":
				c, err := mk(rest, d.line)
				if err != nil {
					return nil, err
				}
				cur.RetAssert = append(cur.RetAssert, c)
				cur.RetAssertK = append(cur.RetAssertK, retK)
			case "assume@after":
				f := strings.Fields(rest)
				callee, ks, _ := strings.Cut(f[0], "#")
				k, _ := strconv.Atoi(ks)
				body := strings.TrimSpace(strings.TrimPrefix(rest, f[0]))
				c, err := mk(body, d.line)
				if err != nil {
					return nil, err
				}
				cur.CallAssume = append(cur.CallAssume, CallAssert{Callee: callee, K: k, C: c})
				cf.Scan = append(cf.Scan, fmt.Sprintf("assumed in %s after %s: %s", cur.Key, f[0], body))
			case "inline":
				cur.Inline = true
			case "pure":
				cur.Pure = true
			case "nilable_receiver":
				cur.NilableRcv = true
			case "no_overflow":
				cur.NoOverflow = true
			case "trusted_contract":
				cf.Scan = append(cf.Scan, fmt.Sprintf("assumed contract of %s: %s", cur.Key, rest))
			case "trusted":
				cur.Trusted = rest
				cf.Scan = append(cf.Scan, fmt.Sprintf("trusted %s: %s", cur.Key, rest))
			case "may_panic":
				c, err := mk(strings.TrimPrefix(rest, "when "), d.line)
				if err != nil {
					return nil, err
				}
				cur.MayPanic = append(cur.MayPanic, c)
			default:
				return nil, fmt.Errorf("%s:%d: unknown directive %q", path, d.line, kw)
			}
		}
	}
	return cf, nil
}

// flattenConj splits a clause into its top-level conjuncts, looking through
// parentheses and through the consequent of implies(c, ...). Each conjunct
// becomes its own obligation (conjunctions are markedly harder for the solvers
// than their parts).
func flattenConj(e ast.Expr) []ast.Expr {
	switch x := e.(type) {
	case *ast.ParenExpr:
		return flattenConj(x.X)
	case *ast.BinaryExpr:
		if x.Op == token.LAND {
			return append(flattenConj(x.X), flattenConj(x.Y)...)
		}
	case *ast.CallExpr:
		if id, ok := x.Fun.(*ast.Ident); ok && id.Name == "implies" && len(x.Args) == 2 {
			parts := flattenConj(x.Args[1])
			if len(parts) > 1 {
				var out []ast.Expr
				for _, p := range parts {
					out = append(out, &ast.CallExpr{Fun: x.Fun, Args: []ast.Expr{x.Args[0], p}})
				}
				return out
			}
		}
	}
	return []ast.Expr{e}
}

func splitClause(c Clause) []Clause {
	parts := flattenConj(c.Expr)
	if len(parts) <= 1 {
		return []Clause{c}
	}
	var out []Clause
	for i, p := range parts {
		n := c.Name
		if n != "" {
			n = fmt.Sprintf("%s.%d", n, i+1)
		}
		out = append(out, Clause{Src: types.ExprString(p), Expr: p, Line: c.Line, Name: n})
	}
	return out
}

// splitTop splits on commas that are not nested in parentheses/brackets.
func splitTop(s string) []string {
	var out []string
	depth, start := 0, 0
	for i, c := range s {
		switch c {
		case '(', '[', '{':
			depth++
		case ')', ']', '}':
			depth--
		case ',':
			if depth == 0 {
				out = append(out, strings.TrimSpace(s[start:i]))
				start = i + 1
			}
		}
	}
	out = append(out, strings.TrimSpace(s[start:]))
	return out
}
