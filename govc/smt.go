package main

// SMT term construction helpers. Terms are strings tagged with a sort; every
// SSA instruction result is bound to a named zero-arity define-fun, so the
// script stays linear in the size of the function.

import (
	"fmt"
	"math/big"
	"strings"
)

type Sort string

const (
	SBool Sort = "Bool"
	SInt  Sort = "Int"
)

func SBV(n int) Sort { return Sort(fmt.Sprintf("(_ BitVec %d)", n)) }
func SArr(i, e Sort) Sort {
	return Sort("(Array " + string(i) + " " + string(e) + ")")
}

func (s Sort) IsBV() bool { return strings.HasPrefix(string(s), "(_ BitVec") }
func (s Sort) Width() int {
	var n int
	fmt.Sscanf(string(s), "(_ BitVec %d)", &n)
	return n
}
func (s Sort) IsArr() bool { return strings.HasPrefix(string(s), "(Array ") }

// ArrParts splits "(Array I E)" into I and E.
func (s Sort) ArrParts() (Sort, Sort) {
	str := string(s)
	str = strings.TrimPrefix(str, "(Array ")
	str = strings.TrimSuffix(str, ")")
	// first sort token
	depth := 0
	for i, c := range str {
		switch c {
		case '(':
			depth++
		case ')':
			depth--
		case ' ':
			if depth == 0 {
				return Sort(str[:i]), Sort(str[i+1:])
			}
		}
	}
	panic("bad array sort " + string(s))
}

type Term struct {
	S    string
	Sort Sort
}

var (
	tTrue  = Term{"true", SBool}
	tFalse = Term{"false", SBool}
)

func (t Term) IsTrue() bool  { return t.S == "true" }
func (t Term) IsFalse() bool { return t.S == "false" }

func app(sort Sort, op string, args ...Term) Term {
	var sb strings.Builder
	sb.WriteByte('(')
	sb.WriteString(op)
	for _, a := range args {
		sb.WriteByte(' ')
		sb.WriteString(a.S)
	}
	sb.WriteByte(')')
	return Term{sb.String(), sort}
}

func mkNot(a Term) Term {
	if a.IsTrue() {
		return tFalse
	}
	if a.IsFalse() {
		return tTrue
	}
	if strings.HasPrefix(a.S, "(not ") {
		return Term{a.S[5 : len(a.S)-1], SBool}
	}
	return app(SBool, "not", a)
}

func mkAnd(as ...Term) Term {
	var keep []Term
	for _, a := range as {
		if a.IsFalse() {
			return tFalse
		}
		if a.IsTrue() {
			continue
		}
		keep = append(keep, a)
	}
	switch len(keep) {
	case 0:
		return tTrue
	case 1:
		return keep[0]
	}
	return app(SBool, "and", keep...)
}

func mkOr(as ...Term) Term {
	var keep []Term
	for _, a := range as {
		if a.IsTrue() {
			return tTrue
		}
		if a.IsFalse() {
			continue
		}
		keep = append(keep, a)
	}
	switch len(keep) {
	case 0:
		return tFalse
	case 1:
		return keep[0]
	}
	return app(SBool, "or", keep...)
}

func mkImplies(a, b Term) Term {
	if a.IsTrue() {
		return b
	}
	if a.IsFalse() || b.IsTrue() {
		return tTrue
	}
	if b.IsFalse() {
		return mkNot(a)
	}
	return app(SBool, "=>", a, b)
}

func mkIte(c, a, b Term) Term {
	if c.IsTrue() {
		return a
	}
	if c.IsFalse() {
		return b
	}
	if a.S == b.S {
		return a
	}
	if a.Sort == SBool {
		if a.IsTrue() && b.IsFalse() {
			return c
		}
		if a.IsFalse() && b.IsTrue() {
			return mkNot(c)
		}
	}
	return app(a.Sort, "ite", c, a, b)
}

func mkEq(a, b Term) Term {
	if a.S == b.S {
		return tTrue
	}
	if a.Sort != b.Sort {
		panic(fmt.Sprintf("mkEq sort mismatch: %s:%s vs %s:%s", a.S, a.Sort, b.S, b.Sort))
	}
	return app(SBool, "=", a, b)
}

func mkSelect(a, i Term) Term {
	_, e := a.Sort.ArrParts()
	return app(e, "select", a, i)
}

func mkStore(a, i, v Term) Term {
	return app(a.Sort, "store", a, i, v)
}

func intLit(v *big.Int) Term {
	if v.Sign() < 0 {
		return Term{"(- " + new(big.Int).Neg(v).String() + ")", SInt}
	}
	return Term{v.String(), SInt}
}

func intLit64(v int64) Term { return intLit(big.NewInt(v)) }

func bvLit(v *big.Int, w int) Term {
	m := new(big.Int).Lsh(big.NewInt(1), uint(w))
	x := new(big.Int).Mod(v, m)
	return Term{fmt.Sprintf("(_ bv%s %d)", x.String(), w), SBV(w)}
}

func bvLit64(v int64, w int) Term { return bvLit(big.NewInt(v), w) }

// bvResize converts a bit-vector to width w, sign- or zero-extending.
func bvResize(t Term, w int, signed bool) Term {
	cw := t.Sort.Width()
	switch {
	case cw == w:
		return t
	case cw > w:
		return Term{fmt.Sprintf("((_ extract %d 0) %s)", w-1, t.S), SBV(w)}
	case signed:
		return Term{fmt.Sprintf("((_ sign_extend %d) %s)", w-cw, t.S), SBV(w)}
	default:
		return Term{fmt.Sprintf("((_ zero_extend %d) %s)", w-cw, t.S), SBV(w)}
	}
}

// Script is the linear list of declarations, definitions and assumptions
// built while walking one function.
type ItemKind int

const (
	ItDecl ItemKind = iota
	ItDef
	ItAssume
	ItRaw // raw SMT-LIB text (prelude declarations, axioms)
	ItForget // assumptions in Items[From:here) are dropped for every obligation after this point (declarations and definitions stay)
)

type Item struct {
	Kind ItemKind
	Name string
	Sort Sort
	Body string
	Note string
	From int // ItForget: start of the forgotten region
}

type Script struct {
	Items      []Item
	Pre        []Item // persistent declarations and assumptions (never rolled back)
	n          int
	persistent map[string]bool
	defPos     map[string]int
	assumed    map[string]int
	isDef      map[string]bool // names introduced by Def (define-fun macros)
}

func NewScript() *Script {
	return &Script{persistent: map[string]bool{}, defPos: map[string]int{}}
}

// DeclP declares a persistent constant (entry-state heap arrays, string
// literals): it survives loop re-runs.
func (s *Script) DeclP(hint string, sort Sort) Term {
	name := s.fresh(hint)
	s.Pre = append(s.Pre, Item{Kind: ItDecl, Name: name, Sort: sort})
	s.persistent[name] = true
	return Term{name, sort}
}

func (s *Script) AssumeP(t Term, note string) {
	if t.IsTrue() {
		return
	}
	s.Pre = append(s.Pre, Item{Kind: ItAssume, Body: t.S, Note: note})
}

func sanitize(s string) string {
	var sb strings.Builder
	for _, c := range s {
		switch {
		case c >= 'a' && c <= 'z', c >= 'A' && c <= 'Z', c >= '0' && c <= '9', c == '_', c == '.', c == '$':
			sb.WriteRune(c)
		default:
			sb.WriteByte('_')
		}
	}
	return sb.String()
}

func (s *Script) fresh(hint string) string {
	s.n++
	h := sanitize(hint)
	if h == "" || h[0] == '.' || h[0] == '$' || (h[0] >= '0' && h[0] <= '9') {
		// SMT-LIB reserves simple symbols that start with '.' or a digit
		h = "v" + h
	}
	return fmt.Sprintf("%s!%d", h, s.n)
}

func (s *Script) Decl(hint string, sort Sort) Term {
	name := s.fresh(hint)
	s.defPos[name] = len(s.Items)
	s.Items = append(s.Items, Item{Kind: ItDecl, Name: name, Sort: sort})
	return Term{name, sort}
}

// Def binds t to a fresh name unless it is already atomic.
func (s *Script) Def(hint string, t Term) Term {
	if !strings.ContainsAny(t.S, " (") {
		return t
	}
	if strings.HasPrefix(t.S, "(_ bv") && strings.Count(t.S, "(") == 1 {
		return t
	}
	if strings.HasPrefix(t.S, "(- ") && strings.Count(t.S, "(") == 1 {
		return t
	}
	name := s.fresh(hint)
	s.defPos[name] = len(s.Items)
	if s.isDef == nil {
		s.isDef = map[string]bool{}
	}
	s.isDef[name] = true
	s.Items = append(s.Items, Item{Kind: ItDef, Name: name, Sort: t.Sort, Body: t.S})
	return Term{name, t.Sort}
}

// Forget marks the assumptions made since position from as dropped for
// everything that follows.
func (s *Script) Forget(from int) {
	s.Items = append(s.Items, Item{Kind: ItForget, From: from})
	s.assumed = map[string]int{}
}

// Atom returns t if it is a literal or a declared constant; otherwise a fresh
// declared constant constrained to equal t. Solvers expand define-fun macros
// and normalise arithmetic, so (+ off e) with a compound or macro-defined e is
// no longer an instance of the trigger (+ off k); with an atom it is.
func (s *Script) Atom(hint string, t Term) Term {
	if !strings.ContainsAny(t.S, " (") && !s.isDef[t.S] {
		return t
	}
	c := s.Decl(hint, t.Sort)
	s.Items = append(s.Items, Item{Kind: ItAssume, Body: "(= " + c.S + " " + t.S + ")", Note: "index term kept atomic for trigger matching"})
	return c
}

func (s *Script) Assume(t Term, note string) {
	if t.IsTrue() {
		return
	}
	// drop exact duplicates that are still in scope
	if s.assumed == nil {
		s.assumed = map[string]int{}
	}
	if i, ok := s.assumed[t.S]; ok && i < len(s.Items) && s.Items[i].Kind == ItAssume && s.Items[i].Body == t.S {
		return
	}
	s.assumed[t.S] = len(s.Items)
	s.Items = append(s.Items, Item{Kind: ItAssume, Body: t.S, Note: note})
}

func (s *Script) Raw(text string) {
	s.Items = append(s.Items, Item{Kind: ItRaw, Body: text})
}

func (s *Script) Pos() int { return len(s.Items) }

// Render emits items[0:pos] followed by the negated goal.
func (s *Script) Render(prelude string, pos int, goal Term, getValues []string) string {
	var sb strings.Builder
	sb.WriteString(prelude)
	// dropping assumptions is always sound; a forget marker keeps the context
	// of later obligations small
	dropped := map[int]bool{}
	for i := 0; i < pos && i < len(s.Items); i++ {
		if s.Items[i].Kind == ItForget {
			for j := s.Items[i].From; j < i; j++ {
				if s.Items[j].Kind == ItAssume {
					dropped[j] = true
				}
			}
		}
	}
	all := append([]Item{}, s.Pre...)
	for i := 0; i < pos; i++ {
		if !dropped[i] {
			all = append(all, s.Items[i])
		}
	}
	for _, it := range all {
		switch it.Kind {
		case ItDecl:
			fmt.Fprintf(&sb, "(declare-fun %s () %s)\n", it.Name, it.Sort)
		case ItDef:
			fmt.Fprintf(&sb, "(define-fun %s () %s %s)\n", it.Name, it.Sort, it.Body)
		case ItAssume:
			if it.Note != "" {
				fmt.Fprintf(&sb, "; %s\n", it.Note)
			}
			fmt.Fprintf(&sb, "(assert %s)\n", it.Body)
		case ItRaw:
			sb.WriteString(it.Body)
			sb.WriteByte('\n')
		}
	}
	if strings.Contains(goal.S, "vacuity_twin_flag") {
		sb.WriteString("(declare-fun vacuity_twin_flag () Bool)\n")
	}
	fmt.Fprintf(&sb, "(assert (not %s))\n(check-sat)\n", goal.S)
	if len(getValues) > 0 {
		fmt.Fprintf(&sb, "(get-value (%s))\n", strings.Join(getValues, " "))
	}
	return sb.String()
}
