package main

// Translation of contract expressions (Go expression syntax plus old, forall,
// exists, implies, ite, math, spec functions) into SMT terms.

import (
	"fmt"
	"go/ast"
	"go/constant"
	"go/token"
	"go/types"
	"math/big"
	"strconv"
	"strings"

	"golang.org/x/tools/go/ssa"
)

type bigInt = big.Int

// CV is an untyped integer constant inside a contract expression.
type CV struct{ V *big.Int }

func (c *CV) valType() types.Type { return types.Typ[types.UntypedInt] }

// MemV denotes the whole backing store of a slice/array: used by mem(x).
type MemV struct {
	Elem types.Type
	Base Term
}

func (m *MemV) valType() types.Type { return types.NewSlice(m.Elem) }

type specErr struct{ msg string }

func (s specErr) Error() string { return s.msg }

type SpecEnv struct {
	vc     *FuncVC
	fn     *ssa.Function // function whose names are in scope (may be nil for lemmas)
	cf     *ContractFile
	pkg    *types.Package
	vars   map[string]Val
	locals map[string]*ssa.Alloc // live locals (current value from cur.Locals)
	cur    *State
	old    *State
	oldVars map[string]Val // values of names inside old(...): parameters at entry
	math   bool
	allocOld Term
	loopHeads map[int]*State
	loopEntries map[int]*State
	guard  Term // reach condition under which memory facts emitted during translation hold
	expand bool // expand quantifiers over constant ranges (proof of table lemmas by ground evaluation)
	where  string
	depth  int
}

func (env *SpecEnv) errf(format string, args ...interface{}) {
	panic(specErr{fmt.Sprintf("%s: %s", env.where, fmt.Sprintf(format, args...))})
}

func (env *SpecEnv) child() *SpecEnv {
	n := *env
	n.vars = map[string]Val{}
	for k, v := range env.vars {
		n.vars[k] = v
	}
	return &n
}

func (env *SpecEnv) enc() *Enc { return env.vc.enc }

// Bool translates a clause to a Bool term.
func (env *SpecEnv) Bool(e ast.Expr) Term {
	v := env.tr(e)
	fv, ok := v.(*FV)
	if !ok || len(fv.L) != 1 || fv.L[0].Sort != SBool {
		env.errf("expression %s is not boolean", exprString(e))
	}
	return fv.L[0]
}

// BoolParts translates a clause into its conjuncts, looking through &&,
// implies(c, ...) and calls of non-opaque boolean spec functions, so that each
// conjunct becomes a separate (much easier) obligation.
func (env *SpecEnv) BoolParts(e ast.Expr) []Term {
	switch x := e.(type) {
	case *ast.ParenExpr:
		return env.BoolParts(x.X)
	case *ast.BinaryExpr:
		if x.Op == token.LAND {
			return append(env.BoolParts(x.X), env.BoolParts(x.Y)...)
		}
	case *ast.CallExpr:
		id, ok := x.Fun.(*ast.Ident)
		if !ok {
			break
		}
		if id.Name == "implies" && len(x.Args) == 2 {
			c := env.Bool(x.Args[0])
			var out []Term
			for _, p := range env.BoolParts(x.Args[1]) {
				out = append(out, mkImplies(c, p))
			}
			return out
		}
		if sf, ok := env.lookupSpec(id.Name); ok && sf.Body != nil && !sf.Opaque && len(x.Args) == len(sf.Params) {
			if rt := env.lookupType(sf.Result); rt != nil && isBool(rt) {
				ch := &SpecEnv{vc: env.vc, fn: env.fn, cf: env.cf, pkg: env.pkg, vars: map[string]Val{}, cur: env.cur, old: env.old,
					oldVars: env.oldVars, allocOld: env.allocOld, where: env.where + " in spec " + sf.Name, depth: env.depth + 1,
					guard: env.guard, loopHeads: env.loopHeads, loopEntries: env.loopEntries, locals: nil}
				if ch.depth > 50 {
					break
				}
				for i, a := range x.Args {
					pt := env.lookupType(sf.Params[i].Type)
					if pt == nil {
						env.errf("spec %s: unknown parameter type", sf.Name)
					}
					v := env.noMath(func() Val { return env.tr(a) })
					v = env.coerce(v, pt)
					ch.vars[sf.Params[i].Name] = v
				}
				return ch.BoolParts(sf.Body)
			}
		}
	}
	return []Term{env.Bool(e)}
}

func exprString(e ast.Expr) string { return types.ExprString(e) }

// widen applies math-mode widening to an integer leaf.
func (env *SpecEnv) widen(v Val) Val {
	if !env.math {
		return v
	}
	fv, ok := v.(*FV)
	if !ok || len(fv.L) != 1 {
		return v
	}
	if isMath(fv.T) {
		return v
	}
	if _, signed, ok := intInfo(fv.T); ok {
		if env.enc().Mode == ModeBV {
			return scalar(mathInt, bvResize(fv.L[0], mathWidth, signed))
		}
		return scalar(mathInt, fv.L[0])
	}
	return v
}

func (env *SpecEnv) lookupType(e ast.Expr) types.Type {
	switch x := e.(type) {
	case *ast.Ident:
		if x.Name == "mathint" {
			return mathInt
		}
		if obj := types.Universe.Lookup(x.Name); obj != nil {
			if tn, ok := obj.(*types.TypeName); ok {
				return tn.Type()
			}
		}
		if env.pkg != nil {
			if obj := env.pkg.Scope().Lookup(x.Name); obj != nil {
				if tn, ok := obj.(*types.TypeName); ok {
					return tn.Type()
				}
			}
		}
	case *ast.StarExpr:
		if t := env.lookupType(x.X); t != nil {
			return types.NewPointer(t)
		}
	case *ast.ArrayType:
		el := env.lookupType(x.Elt)
		if el == nil {
			return nil
		}
		if x.Len == nil {
			return types.NewSlice(el)
		}
		if bl, ok := x.Len.(*ast.BasicLit); ok {
			n, _ := strconv.ParseInt(bl.Value, 0, 64)
			return types.NewArray(el, n)
		}
	case *ast.SelectorExpr:
		if id, ok := x.X.(*ast.Ident); ok && env.pkg != nil {
			if id.Name == env.pkg.Name() {
				if obj := env.pkg.Scope().Lookup(x.Sel.Name); obj != nil {
					if tn, ok := obj.(*types.TypeName); ok {
						return tn.Type()
					}
				}
			}
			if env.vc != nil && env.vc.prog != nil {
				if tp := env.vc.prog.typesPkgByName(id.Name); tp != nil {
					if obj := tp.Scope().Lookup(x.Sel.Name); obj != nil {
						if tn, ok := obj.(*types.TypeName); ok {
							return tn.Type()
						}
					}
				}
			}
			for _, imp := range env.pkg.Imports() {
				if imp.Name() == id.Name {
					if obj := imp.Scope().Lookup(x.Sel.Name); obj != nil {
						if tn, ok := obj.(*types.TypeName); ok {
							return tn.Type()
						}
					}
				}
			}
			// the ast package is imported as "a", token as "t" in lang/check
			for _, imp := range env.pkg.Imports() {
				if obj := imp.Scope().Lookup(x.Sel.Name); obj != nil && importAlias(env, id.Name, imp) {
					if tn, ok := obj.(*types.TypeName); ok {
						return tn.Type()
					}
				}
			}
		}
	case *ast.ParenExpr:
		return env.lookupType(x.X)
	case *ast.InterfaceType:
		return types.NewInterfaceType(nil, nil)
	}
	return nil
}

func importAlias(env *SpecEnv, name string, imp *types.Package) bool {
	if env.vc == nil || env.vc.prog == nil {
		return false
	}
	return env.vc.prog.importAliases[env.pkg.Path()][name] == imp.Path()
}

func (env *SpecEnv) constOf(obj types.Object) Val {
	c := obj.(*types.Const)
	switch c.Val().Kind() {
	case constant.Int:
		bi, _ := new(big.Int).SetString(c.Val().ExactString(), 10)
		if b, ok := c.Type().(*types.Basic); ok && b.Info()&types.IsUntyped != 0 {
			return &CV{bi}
		}
		return env.widen(scalar(c.Type(), env.enc().constInt(bi, c.Type())))
	case constant.Bool:
		if constant.BoolVal(c.Val()) {
			return scalar(types.Typ[types.Bool], tTrue)
		}
		return scalar(types.Typ[types.Bool], tFalse)
	case constant.String:
		return env.vc.stringLit(constant.StringVal(c.Val()), types.Typ[types.String])
	}
	env.errf("unsupported constant %s", obj.Name())
	return nil
}

func (env *SpecEnv) ident(x *ast.Ident) Val {
	switch x.Name {
	case "true":
		return scalar(types.Typ[types.Bool], tTrue)
	case "false":
		return scalar(types.Typ[types.Bool], tFalse)
	case "nil":
		return &CV{nil}
	}
	if v, ok := env.vars[x.Name]; ok {
		return env.widen(v)
	}
	if a, ok := env.locals[x.Name]; ok && env.cur != nil {
		if v, ok := env.cur.Locals[a]; ok {
			return env.widen(v)
		}
		// escaping local kept as a heap cell
		if pv, ok := env.vc.topFrame.vals[a]; ok {
			if fv, ok := pv.(*FV); ok {
				elem := a.Type().(*types.Pointer).Elem()
				if isAggregate(elem) {
					return fv // pointer to the aggregate: selectors work on it
				}
				return env.widen(env.vc.loadFlat(env.cur, &LV{Kind: LCell, Key: elemKey(elem), Ref: fv.L[0]}, elem))
			}
		}
		env.errf("local %s has no value at this point", x.Name)
	}
	if env.pkg != nil {
		if obj := env.pkg.Scope().Lookup(x.Name); obj != nil {
			switch o := obj.(type) {
			case *types.Const:
				return env.constOf(o)
			case *types.Var:
				// package-level variable
				lv := &LV{Kind: LGlobal, Key: env.pkg.Name() + "." + o.Name()}
				if isAggregate(o.Type()) {
					// global aggregate: object at a fixed reference
					return scalar(types.NewPointer(o.Type()), env.vc.globalRef(env.pkg.Name()+"."+o.Name()))
				}
				return env.widen(env.vc.loadFlat(env.cur, lv, o.Type()))
			}
		}
	}
	if obj := types.Universe.Lookup(x.Name); obj != nil {
		if c, ok := obj.(*types.Const); ok {
			return env.constOf(c)
		}
	}
	env.errf("unknown identifier %s", x.Name)
	return nil
}

// coerce converts an untyped constant to type t.
func (env *SpecEnv) coerce(v Val, t types.Type) Val {
	cv, ok := v.(*CV)
	if !ok {
		return v
	}
	if cv.V == nil {
		// nil
		return env.enc().zeroVal(t)
	}
	if isMath(t) || env.math {
		if env.enc().Mode == ModeBV {
			return scalar(mathInt, bvLit(cv.V, mathWidth))
		}
		return scalar(mathInt, intLit(cv.V))
	}
	if _, _, ok := intInfo(t); ok {
		return scalar(t, env.enc().constInt(cv.V, t))
	}
	env.errf("cannot use constant %s as %s", cv.V, t)
	return nil
}

func (env *SpecEnv) defaultConst(v Val) Val {
	if cv, ok := v.(*CV); ok {
		if cv.V == nil {
			env.errf("untyped nil")
		}
		if env.math {
			return env.coerce(v, mathInt)
		}
		return env.coerce(v, types.Typ[types.Int])
	}
	return v
}

func (env *SpecEnv) tr(e ast.Expr) Val {
	env.depth++
	defer func() { env.depth-- }()
	if env.depth > 200 {
		env.errf("spec expansion too deep (recursive spec?)")
	}
	switch x := e.(type) {
	case *ast.ParenExpr:
		return env.tr(x.X)
	case *ast.Ident:
		return env.ident(x)
	case *ast.BasicLit:
		switch x.Kind {
		case token.INT:
			bi, ok := new(big.Int).SetString(strings.ReplaceAll(x.Value, "_", ""), 0)
			if !ok {
				env.errf("bad integer literal %s", x.Value)
			}
			return &CV{bi}
		case token.CHAR:
			r, _, _, err := strconv.UnquoteChar(x.Value[1:len(x.Value)-1], '\'')
			if err != nil {
				env.errf("bad char literal %s", x.Value)
			}
			return &CV{big.NewInt(int64(r))}
		case token.STRING:
			s, err := strconv.Unquote(x.Value)
			if err != nil {
				env.errf("bad string literal")
			}
			return env.vc.stringLit(s, types.Typ[types.String])
		}
		env.errf("unsupported literal %s", x.Value)
	case *ast.UnaryExpr:
		return env.unary(x)
	case *ast.BinaryExpr:
		return env.binary(x)
	case *ast.SelectorExpr:
		return env.selector(x)
	case *ast.IndexExpr:
		return env.index(x)
	case *ast.SliceExpr:
		return env.sliceExpr(x)
	case *ast.CallExpr:
		return env.call(x)
	case *ast.StarExpr:
		p := env.tr(x.X)
		return env.deref(p)
	}
	env.errf("unsupported expression %s (%T)", exprString(e), e)
	return nil
}

// typed adds the type invariant of a value read from memory by a contract
// expression (all memory holds well-typed values). Skipped under binders.
func (env *SpecEnv) typed(v Val) Val {
	if fv, ok := v.(*FV); ok && env.cur != nil {
		for _, l := range fv.L {
			if strings.Contains(l.S, "?") {
				return v
			}
		}
		g := env.guard
		if g.S == "" {
			g = tTrue
		}
		env.vc.sc.Assume(mkImplies(g, env.vc.wellTyped(fv, env.cur)), "")
		if env.cur.Sym == nil {
			// the heap is closed: a pointer or slice read from memory refers to an
			// object allocated before the state it is read in
			env.vc.sc.Assume(mkImplies(g, env.vc.ptrAllocated(fv, env.cur)), "")
		}
	}
	return v
}

func (env *SpecEnv) deref(p Val) Val {
	fv, ok := p.(*FV)
	if !ok {
		env.errf("dereference of non-pointer")
	}
	pt, ok := fv.T.Underlying().(*types.Pointer)
	if !ok {
		env.errf("dereference of non-pointer type %s", fv.T)
	}
	if isAggregate(pt.Elem()) {
		return env.vc.loadObj(env.cur, fv.L[0], pt.Elem())
	}
	return env.widen(env.vc.loadFlat(env.cur, &LV{Kind: LCell, Key: elemKey(pt.Elem()), Ref: fv.L[0]}, pt.Elem()))
}

func (env *SpecEnv) unary(x *ast.UnaryExpr) Val {
	v := env.tr(x.X)
	switch x.Op {
	case token.NOT:
		fv := v.(*FV)
		return scalar(fv.T, mkNot(fv.L[0]))
	case token.SUB:
		if cv, ok := v.(*CV); ok {
			return &CV{new(big.Int).Neg(cv.V)}
		}
		fv := v.(*FV)
		if fv.L[0].Sort.IsBV() {
			return scalar(fv.T, app(fv.L[0].Sort, "bvneg", fv.L[0]))
		}
		return scalar(fv.T, app(SInt, "-", fv.L[0]))
	case token.XOR:
		if cv, ok := v.(*CV); ok {
			return &CV{new(big.Int).Not(cv.V)}
		}
		fv := v.(*FV)
		if fv.L[0].Sort.IsBV() {
			return scalar(fv.T, app(fv.L[0].Sort, "bvnot", fv.L[0]))
		}
		// int mode: ^x = -x-1 for signed; for unsigned max-x
		w, signed, _ := intInfo(fv.T)
		if signed || isMath(fv.T) {
			return scalar(fv.T, app(SInt, "-", app(SInt, "-", fv.L[0]), intLit64(1)))
		}
		_, hi := typeBounds(w, false)
		return scalar(fv.T, app(SInt, "-", intLit(hi), fv.L[0]))
	case token.AND:
		// &x : only meaningful for aggregates held by reference
		return v
	}
	env.errf("unsupported unary operator %s", x.Op)
	return nil
}

func constFold(op token.Token, a, b *big.Int) (*big.Int, bool) {
	r := new(big.Int)
	switch op {
	case token.ADD:
		return r.Add(a, b), true
	case token.SUB:
		return r.Sub(a, b), true
	case token.MUL:
		return r.Mul(a, b), true
	case token.QUO:
		if b.Sign() == 0 {
			return nil, false
		}
		return r.Quo(a, b), true
	case token.REM:
		if b.Sign() == 0 {
			return nil, false
		}
		return r.Rem(a, b), true
	case token.SHL:
		return r.Lsh(a, uint(b.Uint64())), true
	case token.SHR:
		return r.Rsh(a, uint(b.Uint64())), true
	case token.AND:
		return r.And(a, b), true
	case token.OR:
		return r.Or(a, b), true
	case token.XOR:
		return r.Xor(a, b), true
	case token.AND_NOT:
		return r.AndNot(a, b), true
	}
	return nil, false
}

func (env *SpecEnv) binary(x *ast.BinaryExpr) Val {
	enc := env.enc()
	switch x.Op {
	case token.LAND:
		return scalar(types.Typ[types.Bool], mkAnd(env.Bool(x.X), env.Bool(x.Y)))
	case token.LOR:
		return scalar(types.Typ[types.Bool], mkOr(env.Bool(x.X), env.Bool(x.Y)))
	}
	a := env.tr(x.X)
	b := env.tr(x.Y)
	ca, aIsC := a.(*CV)
	cb, bIsC := b.(*CV)
	if aIsC && bIsC && ca.V != nil && cb.V != nil {
		if r, ok := constFold(x.Op, ca.V, cb.V); ok {
			return &CV{r}
		}
		var res bool
		c := ca.V.Cmp(cb.V)
		switch x.Op {
		case token.EQL:
			res = c == 0
		case token.NEQ:
			res = c != 0
		case token.LSS:
			res = c < 0
		case token.LEQ:
			res = c <= 0
		case token.GTR:
			res = c > 0
		case token.GEQ:
			res = c >= 0
		default:
			env.errf("unsupported constant operation %s", x.Op)
		}
		if res {
			return scalar(types.Typ[types.Bool], tTrue)
		}
		return scalar(types.Typ[types.Bool], tFalse)
	}
	isShift := x.Op == token.SHL || x.Op == token.SHR
	if isShift {
		a = env.defaultConst(a)
		if bIsC {
			b = env.coerce(b, a.valType())
		}
	} else {
		if aIsC {
			a = env.coerce(a, b.valType())
		}
		if bIsC {
			b = env.coerce(b, a.valType())
		}
	}
	switch x.Op {
	case token.EQL, token.NEQ:
		eq := env.valEq(a, b)
		if x.Op == token.NEQ {
			eq = mkNot(eq)
		}
		return scalar(types.Typ[types.Bool], eq)
	}
	fa, ok1 := a.(*FV)
	fb, ok2 := b.(*FV)
	if !ok1 || !ok2 || len(fa.L) != 1 || len(fb.L) != 1 {
		env.errf("operator %s on non-scalar operands in %s", x.Op, exprString(x))
	}
	ta, tb := fa.L[0], fb.L[0]
	if fa.L[0].Sort == SBool {
		env.errf("operator %s on booleans", x.Op)
	}
	// math-mode: unify to mathInt
	if isMath(fa.T) != isMath(fb.T) {
		if isMath(fa.T) {
			sv := env.math
			env.math = true
			fb = env.widen(fb).(*FV)
			env.math = sv
			tb = fb.L[0]
		} else {
			sv := env.math
			env.math = true
			fa = env.widen(fa).(*FV)
			env.math = sv
			ta = fa.L[0]
		}
	}
	if !isShift && ta.Sort != tb.Sort {
		env.errf("mismatched operand types %s and %s in %s", fa.T, fb.T, exprString(x))
	}
	_, signed, _ := intInfo(fa.T)
	if isMath(fa.T) {
		signed = true
	}
	rt := fa.T
	switch x.Op {
	case token.LSS:
		return scalar(types.Typ[types.Bool], enc.lt(ta, tb, signed))
	case token.LEQ:
		return scalar(types.Typ[types.Bool], enc.le(ta, tb, signed))
	case token.GTR:
		return scalar(types.Typ[types.Bool], enc.lt(tb, ta, signed))
	case token.GEQ:
		return scalar(types.Typ[types.Bool], enc.le(tb, ta, signed))
	case token.ADD:
		return scalar(rt, enc.add(ta, tb))
	case token.SUB:
		return scalar(rt, enc.sub(ta, tb))
	case token.MUL:
		return scalar(rt, enc.mul(ta, tb))
	case token.QUO:
		return scalar(rt, enc.quo(ta, tb, signed))
	case token.REM:
		return scalar(rt, enc.rem(ta, tb, signed))
	case token.AND, token.OR, token.XOR, token.AND_NOT:
		return scalar(rt, enc.bitop(x.Op, ta, tb, fa.T))
	case token.SHL, token.SHR:
		_, ysigned, _ := intInfo(fb.T)
		return scalar(rt, enc.shift(x.Op, ta, tb, signed, ysigned))
	}
	env.errf("unsupported binary operator %s", x.Op)
	return nil
}

func (env *SpecEnv) valEq(a, b Val) Term {
	if ca, ok := a.(*CV); ok {
		a = env.coerce(ca, b.valType())
	}
	if cb, ok := b.(*CV); ok {
		b = env.coerce(cb, a.valType())
	}
	switch x := a.(type) {
	case *FV:
		y, ok := b.(*FV)
		if !ok {
			env.errf("comparison of different shapes")
		}
		// interface vs concrete pointer etc.
		if len(x.L) != len(y.L) {
			env.errf("comparison of values with different layouts (%s vs %s)", x.T, y.T)
		}
		if isMath(x.T) != isMath(y.T) && len(x.L) == 1 {
			sv := env.math
			env.math = true
			x = env.widen(x).(*FV)
			y = env.widen(y).(*FV)
			env.math = sv
		}
		if _, isSlice := x.T.Underlying().(*types.Slice); isSlice {
			// comparison with nil only compares base/len
			if y.L[0].S == "0" || x.L[0].S == "0" {
				return mkEq(x.L[0], y.L[0])
			}
		}
		var cs []Term
		for i := range x.L {
			if x.L[i].Sort != y.L[i].Sort {
				env.errf("comparison of %s with %s", x.T, y.T)
			}
			cs = append(cs, mkEq(x.L[i], y.L[i]))
		}
		return mkAnd(cs...)
	case *SV:
		y, ok := b.(*SV)
		if !ok || len(x.F) != len(y.F) {
			env.errf("comparison of different struct shapes")
		}
		var cs []Term
		for i := range x.F {
			cs = append(cs, env.valEq(x.F[i], y.F[i]))
		}
		return mkAnd(cs...)
	case *AV:
		y, ok := b.(*AV)
		if !ok || len(x.L) != len(y.L) {
			env.errf("comparison of different array shapes")
		}
		var cs []Term
		for i := range x.L {
			cs = append(cs, mkEq(x.L[i], y.L[i]))
		}
		return mkAnd(cs...)
	case *MemV:
		y, ok := b.(*MemV)
		if !ok {
			env.errf("mem compared with non-mem")
		}
		_ = y
		env.errf("use unchanged(mem(x)) to compare backing stores")
	}
	env.errf("unsupported comparison")
	return tFalse
}

func (env *SpecEnv) selector(x *ast.SelectorExpr) Val {
	// package-qualified constant?
	if id, ok := x.X.(*ast.Ident); ok {
		if _, isVar := env.vars[id.Name]; !isVar {
			if _, isLocal := env.locals[id.Name]; !isLocal && env.pkg != nil && env.pkg.Scope().Lookup(id.Name) == nil {
				if imp := env.findImport(id.Name); imp != nil {
					obj := imp.Scope().Lookup(x.Sel.Name)
					if c, ok := obj.(*types.Const); ok {
						return env.constOf(c)
					}
					if v, ok := obj.(*types.Var); ok {
						lv := &LV{Kind: LGlobal, Key: imp.Name() + "." + v.Name()}
						if isAggregate(v.Type()) {
							return scalar(types.NewPointer(v.Type()), env.vc.globalRef(imp.Name()+"."+v.Name()))
						}
						return env.widen(env.vc.loadFlat(env.cur, lv, v.Type()))
					}
					env.errf("unknown %s.%s", id.Name, x.Sel.Name)
				}
			}
		}
	}
	v := env.tr(x.X)
	return env.fieldOf(v, x.Sel.Name)
}

func (env *SpecEnv) findImport(name string) *types.Package {
	if env.vc != nil && env.vc.prog != nil {
		if path, ok := env.vc.prog.importAliases[env.pkg.Path()][name]; ok {
			for _, imp := range env.pkg.Imports() {
				if imp.Path() == path {
					return imp
				}
			}
		}
	}
	for _, imp := range env.pkg.Imports() {
		if imp.Name() == name {
			return imp
		}
	}
	return nil
}

func findField(st *types.Struct, name string) int {
	for i := 0; i < st.NumFields(); i++ {
		if st.Field(i).Name() == name {
			return i
		}
	}
	return -1
}

func (env *SpecEnv) fieldOf(v Val, name string) Val {
	switch x := v.(type) {
	case *SV:
		st := x.T.Underlying().(*types.Struct)
		i := findField(st, name)
		if i < 0 {
			env.errf("no field %s in %s", name, x.T)
		}
		return env.widen(x.F[i])
	case *FV:
		pt, ok := x.T.Underlying().(*types.Pointer)
		if !ok {
			env.errf("selector .%s on non-struct value of type %s", name, x.T)
		}
		st, ok := pt.Elem().Underlying().(*types.Struct)
		if !ok {
			env.errf("selector .%s on pointer to non-struct %s", name, pt.Elem())
		}
		i := findField(st, name)
		if i < 0 {
			// promoted field through embedded struct
			for j := 0; j < st.NumFields(); j++ {
				if st.Field(j).Embedded() {
					ft := st.Field(j).Type()
					if est, ok := ft.Underlying().(*types.Struct); ok && findField(est, name) >= 0 {
						sub := scalar(types.NewPointer(ft), env.vc.subRef(pt.Elem(), j, x.L[0]))
						return env.fieldOf(sub, name)
					}
				}
			}
			env.errf("no field %s in %s", name, pt.Elem())
		}
		ft := st.Field(i).Type()
		if isAggregate(ft) {
			return scalar(types.NewPointer(ft), env.vc.subRef(pt.Elem(), i, x.L[0]))
		}
		lv := &LV{Kind: LField, Key: typeKey(pt.Elem()) + "|" + name, Ref: x.L[0]}
		return env.widen(env.typed(env.vc.loadFlat(env.cur, lv, ft)))
	}
	env.errf("selector .%s on unsupported value", name)
	return nil
}

// asSlice views a value as (elemType, base, off, len, cap, isString).
func (env *SpecEnv) asSlice(v Val) (types.Type, Term, Term, Term, Term, bool) {
	enc := env.enc()
	fv, ok := v.(*FV)
	if !ok {
		env.errf("indexing a non-indexable value")
	}
	switch u := fv.T.Underlying().(type) {
	case *types.Slice:
		return u.Elem(), fv.Base(), fv.Off(), fv.Len(), fv.Cap(), false
	case *types.Basic:
		if isString(fv.T) {
			return types.Typ[types.Uint8], fv.Base(), fv.Off(), fv.Len(), fv.Len(), true
		}
	case *types.Pointer:
		if at, ok := u.Elem().Underlying().(*types.Array); ok {
			n := enc.idxLit(at.Len())
			return at.Elem(), fv.L[0], enc.idxLit(0), n, n, false
		}
	}
	env.errf("indexing a value of type %s", fv.T)
	return nil, Term{}, Term{}, Term{}, Term{}, false
}

func (env *SpecEnv) idxTerm(v Val) Term {
	v = env.defaultConstIdx(v)
	fv := v.(*FV)
	if isMath(fv.T) {
		if env.enc().Mode == ModeBV {
			return bvResize(fv.L[0], 64, true)
		}
		return fv.L[0]
	}
	return env.enc().toIdx(fv.L[0], fv.T)
}

func (env *SpecEnv) defaultConstIdx(v Val) Val {
	if cv, ok := v.(*CV); ok {
		return scalar(types.Typ[types.Int], env.enc().idxLit(cv.V.Int64()))
	}
	return v
}

func (env *SpecEnv) noMath(f func() Val) Val {
	sv := env.math
	env.math = false
	defer func() { env.math = sv }()
	return f()
}

func (env *SpecEnv) index(x *ast.IndexExpr) Val {
	enc := env.enc()
	sv := env.math
	env.math = false
	base := env.tr(x.X)
	iv := env.tr(x.Index)
	env.math = sv
	if av, ok := base.(*AV); ok {
		i := env.idxTerm(iv)
		return env.widen(enc.elemOfAV(av, i))
	}
	et, b, off, _, _, isStr := env.asSlice(base)
	i := enc.add(off, env.idxTerm(iv))
	if ti, ok := env.vc.tables[b.S]; ok {
		ci, isConst := iv.(*CV)
		if isAggregate(et) {
			if isConst {
				return scalar(types.NewPointer(et), env.vc.elemRef(b, enc.idxLit(ci.V.Int64())))
			}
			return scalar(types.NewPointer(et), env.vc.elemRef(b, i))
		}
		if isConst && ti.offset >= 0 && ci.V.Sign() >= 0 && ci.V.Int64() < ti.data.dims[ti.level] {
			// constant index into a constant table: fold to the literal
			return &CV{ti.data.vals[ti.offset+ci.V.Int64()]}
		}
		return env.widen(scalar(et, mkSelect(ti.term, i)))
	}
	if isAggregate(et) {
		return scalar(types.NewPointer(et), env.vc.elemRef(b, i))
	}
	if isStr {
		return env.widen(scalar(types.Typ[types.Uint8], mkSelect(mkSelect(env.vc.strMem(), b), i)))
	}
	lv := &LV{Kind: LElem, Key: elemKey(et), Ref: b, Idx: i}
	return env.widen(env.typed(env.vc.loadFlat(env.cur, lv, et)))
}

func (env *SpecEnv) sliceExpr(x *ast.SliceExpr) Val {
	enc := env.enc()
	sv := env.math
	env.math = false
	defer func() { env.math = sv }()
	base := env.tr(x.X)
	et, b, off, ln, cp, isStr := env.asSlice(base)
	lo := enc.idxLit(0)
	hi := ln
	if x.Low != nil {
		lo = env.idxTerm(env.tr(x.Low))
	}
	if x.High != nil {
		hi = env.idxTerm(env.tr(x.High))
	}
	if isStr {
		return &FV{T: types.Typ[types.String], L: []Term{b, enc.add(off, lo), enc.sub(hi, lo)}}
	}
	return &FV{T: types.NewSlice(et), L: []Term{b, enc.add(off, lo), enc.sub(hi, lo), enc.sub(cp, lo)}}
}

func (env *SpecEnv) quant(kind string, x *ast.CallExpr) Val {
	enc := env.enc()
	if len(x.Args) != 4 {
		env.errf("%s(k, lo, hi, body) expects 4 arguments", kind)
	}
	id, ok := x.Args[0].(*ast.Ident)
	if !ok {
		env.errf("%s: first argument must be an identifier", kind)
	}
	sv := env.math
	env.math = false
	lo := env.idxTerm(env.tr(x.Args[1]))
	hi := env.idxTerm(env.tr(x.Args[2]))
	env.math = sv
	if env.expand {
		cl, ok1 := termConst(lo)
		ch, ok2 := termConst(hi)
		if ok1 && ok2 && ch.Int64()-cl.Int64() <= 8192 {
			var parts []Term
			for k := cl.Int64(); k < ch.Int64(); k++ {
				c := env.child()
				c.vars[id.Name] = &CV{big.NewInt(k)}
				parts = append(parts, c.Bool(x.Args[3]))
			}
			if kind == "forall" {
				return scalar(types.Typ[types.Bool], mkAnd(parts...))
			}
			return scalar(types.Typ[types.Bool], mkOr(parts...))
		}
	}
	bound := fmt.Sprintf("%s?%d", id.Name, env.vc.sc.n)
	env.vc.sc.n++
	ch := env.child()
	ch.vars[id.Name] = scalar(types.Typ[types.Int], Term{bound, enc.Idx()})
	body := ch.Bool(x.Args[3])
	k := Term{bound, enc.Idx()}
	rng := mkAnd(enc.idxLe(lo, k), enc.idxLt(k, hi))
	if enc.Mode == ModeInt {
		// Re-index by absolute position: if the body reads s[k] as
		// (select .. (+ off k)), quantify over j = off + k instead, so that the
		// trigger (select .. j) contains no arithmetic. Solvers normalise sums,
		// and (+ off k) then fails to match the index terms of the loads.
		body.S = strings.ReplaceAll(body.S, "(+ 0 "+bound+")", bound)
		if x, ok := offsetOf(body.S, bound); ok {
			j := Term{"j" + strings.TrimPrefix(bound, id.Name), SInt}
			bs := strings.ReplaceAll(body.S, "(+ "+x+" "+bound+")", j.S)
			back := "(- " + j.S + " " + x + ")"
			bs = replaceToken(bs, bound, back)
			body = Term{bs, SBool}
			xt := Term{x, SInt}
			rng = mkAnd(enc.idxLe(enc.add(xt, lo), j), enc.idxLt(j, enc.add(xt, hi)))
			bound = j.S
		}
	}
	var t Term
	if kind == "forall" {
		t = Term{fmt.Sprintf("(forall ((%s %s)) %s)", bound, enc.Idx(), mkImplies(rng, body).S), SBool}
	} else {
		t = Term{fmt.Sprintf("(exists ((%s %s)) %s)", bound, enc.Idx(), mkAnd(rng, body).S), SBool}
	}
	return scalar(types.Typ[types.Bool], t)
}

func (env *SpecEnv) call(x *ast.CallExpr) Val {
	enc := env.enc()
	if id, ok := x.Fun.(*ast.Ident); ok {
		switch id.Name {
		case "old":
			if env.old == nil {
				env.errf("old() not available here")
			}
			ch := env.child()
			ch.cur = env.old
			for k, v := range env.oldVars {
				ch.vars[k] = v
			}
			// inside old(), locals are read at entry: parameters only
			ch.locals = nil
			return ch.tr(x.Args[0])
		case "atentry":
			// atentry(k, e): e evaluated in the state just before loop k was entered
			cv, ok := env.tr(x.Args[0]).(*CV)
			if !ok || cv.V == nil {
				env.errf("atentry: first argument must be a loop ordinal")
			}
			hs := env.loopEntries[int(cv.V.Int64())]
			if hs == nil {
				env.errf("atentry(%d, ...): loop not entered yet", cv.V.Int64())
			}
			ch := env.child()
			ch.cur = hs
			return ch.tr(x.Args[1])
		case "athead":
			// athead(k, e): e evaluated in the state at the head of loop k (current iteration)
			cv, ok := env.tr(x.Args[0]).(*CV)
			if !ok || cv.V == nil {
				env.errf("athead: first argument must be a loop ordinal")
			}
			hs := env.loopHeads[int(cv.V.Int64())]
			if hs == nil {
				env.errf("athead(%d, ...): not inside that loop", cv.V.Int64())
			}
			ch := env.child()
			ch.cur = hs
			return ch.tr(x.Args[1])
		case "forall", "exists":
			return env.quant(id.Name, x)
		case "forallm", "existsm":
			// forallm(v, body): v ranges over all mathematical integers
			vid, ok := x.Args[0].(*ast.Ident)
			if !ok || len(x.Args) != 2 {
				env.errf("%s(v, body) expects an identifier and a body", id.Name)
			}
			ms := enc.scalarSort(mathInt)
			bound := fmt.Sprintf("%s?%d", vid.Name, env.vc.sc.n)
			env.vc.sc.n++
			ch := env.child()
			ch.vars[vid.Name] = scalar(mathInt, Term{bound, ms})
			body := ch.Bool(x.Args[1])
			q := "forall"
			if id.Name == "existsm" {
				q = "exists"
			}
			return scalar(types.Typ[types.Bool], Term{fmt.Sprintf("(%s ((%s %s)) %s)", q, bound, ms, body.S), SBool})
		case "ediv", "emod":
			ch := env.child()
			ch.math = true
			a := ch.coerce(ch.tr(x.Args[0]), mathInt).(*FV)
			b := ch.coerce(ch.tr(x.Args[1]), mathInt).(*FV)
			if enc.Mode != ModeInt {
				env.errf("%s is only available in mode int", id.Name)
			}
			op := "div"
			if id.Name == "emod" {
				op = "mod"
			}
			return scalar(mathInt, app(SInt, op, a.L[0], b.L[0]))
		case "pow2":
			ch := env.child()
			ch.math = true
			a := ch.coerce(ch.tr(x.Args[0]), mathInt).(*FV)
			if enc.Mode != ModeInt {
				env.errf("pow2 is only available in mode int")
			}
			if c, ok := termConst(a.L[0]); ok && c.Sign() >= 0 && c.BitLen() < 12 {
				return scalar(mathInt, intLit(new(big.Int).Lsh(big.NewInt(1), uint(c.Int64()))))
			}
			return scalar(mathInt, app(SInt, "pow2", a.L[0]))
		case "implies":
			return scalar(types.Typ[types.Bool], mkImplies(env.Bool(x.Args[0]), env.Bool(x.Args[1])))
		case "iff":
			return scalar(types.Typ[types.Bool], mkEq(env.Bool(x.Args[0]), env.Bool(x.Args[1])))
		case "ite":
			c := env.Bool(x.Args[0])
			a := env.tr(x.Args[1])
			b := env.tr(x.Args[2])
			if ca, ok := a.(*CV); ok {
				if _, ok2 := b.(*CV); ok2 {
					a = env.defaultConst(ca)
				} else {
					a = env.coerce(ca, b.valType())
				}
			}
			if cb, ok := b.(*CV); ok {
				b = env.coerce(cb, a.valType())
			}
			fa, fb := a.(*FV), b.(*FV)
			if isMath(fa.T) != isMath(fb.T) {
				sv := env.math
				env.math = true
				fa = env.widen(fa).(*FV)
				fb = env.widen(fb).(*FV)
				env.math = sv
			}
			out := &FV{T: fa.T}
			for i := range fa.L {
				out.L = append(out.L, mkIte(c, fa.L[i], fb.L[i]))
			}
			return out
		case "math":
			ch := env.child()
			ch.math = true
			return ch.tr(x.Args[0])
		case "len", "cap":
			sv := env.math
			env.math = false
			v := env.tr(x.Args[0])
			env.math = sv
			if av, ok := v.(*AV); ok {
				return env.widen(scalar(types.Typ[types.Int], enc.idxLit(av.T.Underlying().(*types.Array).Len())))
			}
			_, _, _, ln, cp, _ := env.asSlice(v)
			if id.Name == "cap" {
				ln = cp
			}
			return env.widen(scalar(types.Typ[types.Int], ln))
		case "base":
			v := env.noMath(func() Val { return env.tr(x.Args[0]) })
			_, b, _, _, _, _ := env.asSlice(v)
			return scalar(types.Typ[types.UnsafePointer], b)
		case "off":
			v := env.noMath(func() Val { return env.tr(x.Args[0]) })
			_, _, off, _, _, _ := env.asSlice(v)
			return env.widen(scalar(types.Typ[types.Int], off))
		case "sameslice":
			a := env.noMath(func() Val { return env.tr(x.Args[0]) }).(*FV)
			b := env.noMath(func() Val { return env.tr(x.Args[1]) }).(*FV)
			var cs []Term
			for i := range a.L {
				cs = append(cs, mkEq(a.L[i], b.L[i]))
			}
			return scalar(types.Typ[types.Bool], mkAnd(cs...))
		case "window":
			// window(a, b): a and b denote the same bytes (base, off, len), capacity ignored
			a := env.noMath(func() Val { return env.tr(x.Args[0]) }).(*FV)
			b := env.noMath(func() Val { return env.tr(x.Args[1]) }).(*FV)
			return scalar(types.Typ[types.Bool], mkAnd(mkEq(a.L[0], b.L[0]), mkEq(a.L[1], b.L[1]), mkEq(a.L[2], b.L[2])))
		case "mem":
			v := env.noMath(func() Val { return env.tr(x.Args[0]) })
			et, b, _, _, _, _ := env.asSlice(v)
			return &MemV{Elem: et, Base: b}
		case "unchanged":
			ch := env.child()
			ch.cur = env.old
			for k, v := range env.oldVars {
				ch.vars[k] = v
			}
			ch.locals = nil
			now := env.noMath(func() Val { return env.tr(x.Args[0]) })
			was := ch.noMath(func() Val { return ch.tr(x.Args[0]) })
			if m, ok := now.(*MemV); ok {
				// the whole backing store, per leaf
				var cs []Term
				for _, l := range enc.Leaves(m.Elem) {
					key := env.vc.memKey(m.Elem, l.Name)
					s := SArr(SInt, SArr(enc.Idx(), l.Sort))
					a := env.vc.heapGet(env.cur, key, s)
					b := env.vc.heapGet(env.old, key, s)
					cs = append(cs, mkEq(mkSelect(a, m.Base), mkSelect(b, was.(*MemV).Base)))
				}
				return scalar(types.Typ[types.Bool], mkAnd(cs...))
			}
			return scalar(types.Typ[types.Bool], env.valEq(now, was))
		case "fresh":
			v := env.noMath(func() Val { return env.tr(x.Args[0]) }).(*FV)
			return scalar(types.Typ[types.Bool], mkAnd(
				app(SBool, ">=", app(SInt, "refroot", v.L[0]), env.allocOld),
				app(SBool, "<", app(SInt, "refroot", v.L[0]), env.cur.Alloc),
				mkNot(mkEq(v.L[0], intLit64(0)))))
		case "allocated":
			v := env.noMath(func() Val { return env.tr(x.Args[0]) }).(*FV)
			return scalar(types.Typ[types.Bool], app(SBool, "<", app(SInt, "refroot", v.L[0]), env.cur.Alloc))
		case "min", "max":
			a := env.tr(x.Args[0])
			b := env.tr(x.Args[1])
			if ca, ok := a.(*CV); ok {
				a = env.coerce(ca, b.valType())
			}
			if cb, ok := b.(*CV); ok {
				b = env.coerce(cb, a.valType())
			}
			fa, fb := a.(*FV), b.(*FV)
			_, signed, _ := intInfo(fa.T)
			if isMath(fa.T) {
				signed = true
			}
			c := enc.le(fa.L[0], fb.L[0], signed)
			if id.Name == "max" {
				c = enc.le(fb.L[0], fa.L[0], signed)
			}
			return scalar(fa.T, mkIte(c, fa.L[0], fb.L[0]))
		case "sameobj":
			a := env.noMath(func() Val { return env.tr(x.Args[0]) }).(*FV)
			b := env.noMath(func() Val { return env.tr(x.Args[1]) }).(*FV)
			return scalar(types.Typ[types.Bool], mkEq(a.L[0], b.L[0]))
		case "isnil":
			v := env.noMath(func() Val { return env.tr(x.Args[0]) }).(*FV)
			return scalar(types.Typ[types.Bool], mkEq(v.L[0], intLit64(0)))
		}
		if sf, ok := env.lookupSpec(id.Name); ok {
			return env.specCall(sf, x)
		}
	}
	// type conversion
	if t := env.lookupType(x.Fun); t != nil && len(x.Args) == 1 {
		v := env.tr(x.Args[0])
		return env.convert(v, t)
	}
	env.errf("unknown function %s in contract expression", exprString(x.Fun))
	return nil
}

func (env *SpecEnv) lookupSpec(name string) (*SpecFunc, bool) {
	if env.cf != nil {
		if sf, ok := env.cf.Specs[name]; ok {
			return sf, true
		}
	}
	if env.vc != nil && env.vc.prog != nil && env.vc.prog.lib != nil {
		if sf, ok := env.vc.prog.lib.Specs[name]; ok {
			return sf, true
		}
	}
	return nil, false
}

func (env *SpecEnv) convert(v Val, t types.Type) Val {
	enc := env.enc()
	if cv, ok := v.(*CV); ok {
		return env.coerce(cv, t)
	}
	fv, ok := v.(*FV)
	if !ok {
		env.errf("conversion of aggregate")
	}
	if isMath(fv.T) {
		if isMath(t) || env.math {
			return fv
		}
		// mathint -> machine type: truncate
		if _, _, ok := intInfo(t); ok {
			if enc.Mode == ModeBV {
				w, _, _ := intInfo(t)
				return scalar(t, bvResize(fv.L[0], w, true))
			}
			return scalar(t, fv.L[0])
		}
	}
	if isMath(t) {
		sv := env.math
		env.math = true
		r := env.widen(fv)
		env.math = sv
		return r
	}
	_, _, fromInt := intInfo(fv.T)
	wt, _, toInt := intInfo(t)
	if fromInt && toInt {
		if enc.Mode == ModeBV {
			_, signed, _ := intInfo(fv.T)
			return scalar(t, bvResize(fv.L[0], wt, signed))
		}
		return scalar(t, enc.convInt(fv.L[0], fv.T, t))
	}
	// same-layout conversions (named types)
	if len(enc.Leaves(t)) == len(fv.L) {
		return &FV{T: t, L: fv.L}
	}
	env.errf("unsupported conversion from %s to %s", fv.T, t)
	return nil
}

func (env *SpecEnv) specCall(sf *SpecFunc, x *ast.CallExpr) Val {
	if len(x.Args) != len(sf.Params) {
		env.errf("spec %s expects %d arguments", sf.Name, len(sf.Params))
	}
	rt := env.lookupType(sf.Result)
	if rt == nil {
		env.errf("spec %s: unknown result type %s", sf.Name, exprString(sf.Result))
	}
	var args []Val
	for i, a := range x.Args {
		pt := env.lookupType(sf.Params[i].Type)
		if pt == nil {
			env.errf("spec %s: unknown parameter type %s", sf.Name, exprString(sf.Params[i].Type))
		}
		var v Val
		if isMath(pt) {
			ch := env.child()
			ch.math = true
			v = ch.tr(a)
			v = ch.coerce(v, mathInt)
		} else {
			v = env.noMath(func() Val { return env.tr(a) })
			v = env.coerce(v, pt)
			// integer arguments adopt the declared type
			if fv, ok := v.(*FV); ok && len(fv.L) == 1 {
				if _, _, isInt := intInfo(pt); isInt && fv.L[0].Sort != SBool {
					v = env.noMath(func() Val { return env.convert(fv, pt) })
				}
			}
		}
		args = append(args, v)
	}
	if sf.Body == nil {
		// uninterpreted ghost function (possibly heap-dependent: ghostfield)
		return env.ghostApp(sf, args, rt)
	}
	if sf.Opaque {
		return env.opaqueCall(sf, args, rt)
	}
	ch := &SpecEnv{vc: env.vc, fn: env.fn, cf: env.cf, pkg: env.pkg, vars: map[string]Val{}, cur: env.cur, old: env.old,
		oldVars: env.oldVars, allocOld: env.allocOld, where: env.where + " in spec " + sf.Name, depth: env.depth,
		guard: env.guard}
	for i, p := range sf.Params {
		ch.vars[p.Name] = args[i]
	}
	ch.math = isMath(rt) && false
	res := ch.tr(sf.Body)
	res = ch.coerce(res, rt)
	if fv, ok := res.(*FV); ok && len(fv.L) == 1 && fv.L[0].Sort != SBool {
		if isMath(rt) {
			sv := ch.math
			ch.math = true
			res = ch.widen(fv)
			ch.math = sv
		}
	}
	return env.widen(res)
}

func (env *SpecEnv) ghostApp(sf *SpecFunc, args []Val, rt types.Type) Val {
	vc := env.vc
	enc := env.enc()
	rs := enc.scalarSort(rt)
	if sf.Heap {
		// heap-resident ghost field: one parameter, a pointer
		key := "H|ghost|" + sf.Name + "|v"
		arr := vc.heapGet(env.cur, key, SArr(SInt, rs))
		return env.widen(scalar(rt, mkSelect(arr, args[0].(*FV).L[0])))
	}
	name := "ghost_" + sanitize(sf.Name)
	if !vc.subFuncs[name] {
		vc.subFuncs[name] = true
		var ps []string
		for _, a := range args {
			fv, ok := a.(*FV)
			if !ok {
				env.errf("ghost function %s: only flat parameters (scalars, interfaces, slices, strings) are supported", sf.Name)
			}
			// a multi-leaf value (interface: type and value word) is passed leaf by leaf
			for _, l := range fv.L {
				ps = append(ps, string(l.Sort))
			}
		}
		vc.extraDecls = append(vc.extraDecls, fmt.Sprintf("(declare-fun %s (%s) %s)", name, strings.Join(ps, " "), rs))
	}
	var ts []Term
	for _, a := range args {
		fv, ok := a.(*FV)
		if !ok {
			env.errf("ghost function %s: only flat parameters are supported", sf.Name)
		}
		ts = append(ts, fv.L...)
	}
	return env.widen(scalar(rt, app(rs, name, ts...)))
}


// opaqueCall applies an `ospec` function: an uninterpreted SMT function of
// the heap components it reads and its parameters, with one triggered
// definitional axiom. Quantified contracts over such functions instantiate by
// matching on the application, not on array-index arithmetic.
func (env *SpecEnv) opaqueCall(sf *SpecFunc, args []Val, rt types.Type) Val {
	vc := env.vc
	enc := env.enc()
	if vc.opaque == nil {
		vc.opaque = map[string]*opaqueInfo{}
	}
	rs := enc.scalarSort(rt)
	info := vc.opaque[sf.Name]
	if info != nil && info.building && info.pass == 1 {
		// recursive application inside the body, first pass: the heap
		// components read are not known yet; the pass only collects them
		info.recursive = true
		return env.widen(scalar(rt, Term{"rec?dummy", rs}))
	}
	if info == nil {
		info = &opaqueInfo{name: "spec_" + sanitize(sf.Name), building: true, pass: 1}
		vc.opaque[sf.Name] = info
		var sym *State
		var binders, appArgs []string
		var bt Term
		build := func() {
			sym = &State{Locals: map[*ssa.Alloc]Val{}, Heap: map[string]Term{}, Alloc: Term{"alloc?", SInt}, Sym: &symHeap{terms: map[string]Term{}}}
			if info.pass == 2 {
				// keep the component order of the first pass
				for i, k := range info.keys {
					vc.heapGet(sym, k, info.sorts[i])
				}
			}
			binders, appArgs = nil, nil
			ch := &SpecEnv{vc: vc, fn: env.fn, cf: env.cf, pkg: env.pkg, vars: map[string]Val{}, cur: sym, where: env.where + " in ospec " + sf.Name, depth: env.depth}
			for i, p := range sf.Params {
				pt := env.lookupType(p.Type)
				if ls, isArr := enc.arrayLeafSorts(pt); isArr {
					av := &AV{T: pt}
					for j, srt := range ls {
						av.L = append(av.L, Term{fmt.Sprintf("p?%d_%d", i, j), srt})
					}
					for _, t := range av.L {
						binders = append(binders, fmt.Sprintf("(%s %s)", t.S, t.Sort))
						appArgs = append(appArgs, t.S)
					}
					ch.vars[p.Name] = av
					continue
				}
				fv := &FV{T: pt}
				if isMath(pt) {
					fv.L = []Term{{fmt.Sprintf("p?%d_0", i), enc.scalarSort(pt)}}
				} else {
					for j, l := range enc.Leaves(pt) {
						fv.L = append(fv.L, Term{fmt.Sprintf("p?%d_%d", i, j), l.Sort})
					}
				}
				for _, t := range fv.L {
					binders = append(binders, fmt.Sprintf("(%s %s)", t.S, t.Sort))
					appArgs = append(appArgs, t.S)
				}
				ch.vars[p.Name] = fv
			}
			body := ch.tr(sf.Body)
			body = ch.coerce(body, rt)
			bf, ok := body.(*FV)
			if !ok || len(bf.L) != 1 {
				env.errf("ospec %s must have a scalar body", sf.Name)
			}
			if isMath(rt) && !isMath(bf.T) {
				ch.math = true
				bf = ch.widen(bf).(*FV)
			}
			bt = bf.L[0]
			if bt.Sort != rs {
				env.errf("ospec %s: body sort %s does not match result sort %s", sf.Name, bt.Sort, rs)
			}
		}
		build()
		info.keys = sym.Sym.keys
		info.sorts = nil
		for _, k := range info.keys {
			info.sorts = append(info.sorts, sym.Sym.terms[k].Sort)
		}
		// footprint reduction: a memory component that the body reads only at
		// the backing object of one slice parameter, (select h p.base), is
		// passed as that object's element array instead of the whole
		// component, so that writes to other objects leave the application
		// syntactically unchanged
		info.reduce = map[int]string{}
		for j, k := range info.keys {
			ht := sym.Sym.terms[k]
			if x, ok := selectTemplate(bt.S, ht, "p?"); ok {
				info.reduce[j] = x
			}
		}
		if info.recursive {
			n1 := len(info.keys)
			info.pass = 2
			build()
			if len(sym.Sym.keys) != n1 {
				env.errf("recursive ospec %s: heap footprint changed between passes", sf.Name)
			}
		}
		info.building = false
		var hb, ha, hs []string
		for j, k := range info.keys {
			t := sym.Sym.terms[k]
			name, srt := t.S, t.Sort
			if x, ok := info.reduce[j]; ok {
				_, el := t.Sort.ArrParts()
				name, srt = fmt.Sprintf("m?%d", j), el
				bt.S = strings.ReplaceAll(bt.S, fmt.Sprintf("(select %s %s)", t.S, x), name)
				if containsToken(bt.S, t.S) {
					env.errf("ospec %s: footprint reduction failed for %s", sf.Name, k)
				}
			}
			if srt.IsArr() && vc.boxed() {
				// array-valued heap arguments are passed boxed (as an Int handle):
				// the solvers give up early on quantifiers over array-sorted variables
				box, unbox := vc.boxFns(srt)
				id := fmt.Sprintf("id?%d", j)
				bt.S = replaceToken(bt.S, name, "("+unbox+" "+id+")")
				bt.S = strings.ReplaceAll(bt.S, "("+box+" ("+unbox+" "+id+"))", id)
				hb = append(hb, fmt.Sprintf("(%s Int)", id))
				ha = append(ha, id)
				hs = append(hs, "Int")
				continue
			}
			hb = append(hb, fmt.Sprintf("(%s %s)", name, srt))
			ha = append(ha, name)
			hs = append(hs, string(srt))
		}
		var ps []string
		for _, a := range args {
			for _, t := range valLeaves(a) {
				ps = append(ps, string(t.Sort))
			}
		}
		if info.recursive {
			// fuel encoding (as in Dafny/Boogie): the definition unfolds an
			// application carrying fuel S(ly) into one carrying ly; user-level
			// applications carry fuel 2, so unfolding stops after two steps and
			// the definitional axiom cannot trigger itself for ever
			if !vc.subFuncs["fuel"] {
				vc.subFuncs["fuel"] = true
				vc.extraDecls = append(vc.extraDecls, "(declare-sort Fuel 0)", "(declare-fun fuelS (Fuel) Fuel)", "(declare-fun fuelZ () Fuel)")
			}
			vc.extraDecls = append(vc.extraDecls, fmt.Sprintf("(declare-fun %s (%s) %s)", info.name, strings.Join(append(append([]string{"Fuel"}, hs...), ps...), " "), rs))
			all := append(append([]string{"(ly? Fuel)"}, hb...), binders...)
			rest := strings.Join(append(ha, appArgs...), " ")
			applS := "(" + info.name + " (fuelS ly?) " + rest + ")"
			appl0 := "(" + info.name + " ly? " + rest + ")"
			vc.extraDecls = append(vc.extraDecls, fmt.Sprintf("(assert (forall (%s) (! (= %s %s) :pattern (%s))))", strings.Join(all, " "), applS, bt.S, applS))
			vc.extraDecls = append(vc.extraDecls, fmt.Sprintf("(assert (forall (%s) (! (= %s %s) :pattern (%s))))", strings.Join(all, " "), applS, appl0, applS))
			vc.opaque[sf.Name] = info
			goto built
		}
		vc.extraDecls = append(vc.extraDecls, fmt.Sprintf("(declare-fun %s (%s) %s)", info.name, strings.Join(append(hs, ps...), " "), rs))
		all := append(hb, binders...)
		appl := "(" + info.name + " " + strings.Join(append(ha, appArgs...), " ") + ")"
		if len(all) == 0 {
			vc.extraDecls = append(vc.extraDecls, fmt.Sprintf("(assert (= (%s) %s))", info.name, bt.S))
		} else {
			vc.extraDecls = append(vc.extraDecls, fmt.Sprintf("(assert (forall (%s) (! (= %s %s) :pattern (%s))))", strings.Join(all, " "), appl, bt.S, appl))
		}
		vc.opaque[sf.Name] = info
	}
built:
	var ts []Term
	if info.recursive {
		if info.building {
			ts = append(ts, Term{"ly?", Sort("Fuel")})
		} else {
			ts = append(ts, Term{"(fuelS (fuelS fuelZ))", Sort("Fuel")})
		}
	}
	for i, k := range info.keys {
		ht := vc.heapGet(env.cur, k, info.sorts[i])
		if x, ok := info.reduce[i]; ok {
			// instantiate the template with the actual argument leaves
			inst := x
			for pi, a := range args {
				for li, l := range valLeaves(a) {
					inst = replaceToken(inst, fmt.Sprintf("p?%d_%d", pi, li), l.S)
				}
			}
			if strings.Contains(inst, "p?") && !info.building {
				env.errf("ospec %s: cannot instantiate the footprint template %s", sf.Name, x)
			}
			ht = mkSelect(ht, Term{inst, SInt})
		}
		if ht.Sort.IsArr() && vc.boxed() {
			box, unbox := vc.boxFns(ht.Sort)
			bx := Term{"(" + box + " " + ht.S + ")", SInt}
			if env.cur.Sym == nil && !strings.Contains(ht.S, "?") {
				vc.sc.Assume(mkEq(Term{"(" + unbox + " " + bx.S + ")", ht.Sort}, ht), "handle of a heap argument")
				if tp := vc.typedPred(k, ht.Sort); tp != "" {
					// all memory holds well-typed values (the encoding's invariant)
					vc.sc.Assume(Term{"(" + tp + " " + bx.S + ")", SBool}, "the heap argument holds well-typed values")
				}
			}
			ht = bx
		}
		ts = append(ts, ht)
	}
	for _, a := range args {
		ls := valLeaves(a)
		if ls == nil {
			env.errf("ospec %s: unsupported argument shape", sf.Name)
		}
		ts = append(ts, ls...)
	}
	if len(ts) == 0 {
		return env.widen(scalar(rt, Term{"(" + info.name + ")", rs}))
	}
	return env.widen(scalar(rt, app(rs, info.name, ts...)))
}


func valLeaves(v Val) []Term {
	switch x := v.(type) {
	case *FV:
		return x.L
	case *AV:
		return x.L
	}
	return nil
}


// containsToken: does the S-expression text mention the symbol tok as a whole token?
func containsToken(text, tok string) bool {
	i := 0
	for {
		j := strings.Index(text[i:], tok)
		if j < 0 {
			return false
		}
		j += i
		end := j + len(tok)
		okL := j == 0 || text[j-1] == ' ' || text[j-1] == '('
		okR := end == len(text) || text[end] == ' ' || text[end] == ')'
		if okL && okR {
			return true
		}
		i = j + 1
	}
}


// selectTemplate: if every occurrence of the heap component h in text is of
// the form (select h X) for one and the same X, and X mentions nothing but
// parameter leaves (names starting with prefix) and function symbols, X is
// returned. The component can then be passed as (select h X), an array of one
// dimension less.
func selectTemplate(text string, h Term, prefix string) (string, bool) {
	if !h.Sort.IsArr() {
		return "", false
	}
	if _, el := h.Sort.ArrParts(); !el.IsArr() {
		return "", false
	}
	head := "(select " + h.S + " "
	i := strings.Index(text, head)
	if i < 0 {
		return "", false
	}
	j := i + len(head)
	// parse one balanced S-expression or atom starting at j
	end := j
	if text[j] == '(' {
		d := 0
		for end = j; end < len(text); end++ {
			if text[end] == '(' {
				d++
			} else if text[end] == ')' {
				d--
				if d == 0 {
					end++
					break
				}
			}
		}
	} else {
		for end < len(text) && text[end] != ' ' && text[end] != ')' {
			end++
		}
	}
	x := text[j:end]
	if end >= len(text) || text[end] != ')' {
		return "", false
	}
	if containsToken(strings.ReplaceAll(text, head+x+")", ""), h.S) {
		return "", false
	}
	// X may mention only parameter leaves and (sub-object / elemref) function symbols
	for _, tok := range strings.FieldsFunc(x, func(r rune) bool { return r == '(' || r == ')' || r == ' ' }) {
		if strings.HasPrefix(tok, prefix) || strings.HasPrefix(tok, "sub_") || tok == "elemref" {
			continue
		}
		if _, err := strconv.Atoi(tok); err == nil {
			continue
		}
		return "", false
	}
	if !strings.Contains(x, prefix) {
		return "", false
	}
	return x, true
}

// replaceToken replaces whole-token occurrences of old in an S-expression text.
func replaceToken(text, old, new string) string {
	var sb strings.Builder
	i := 0
	for i < len(text) {
		j := strings.Index(text[i:], old)
		if j < 0 {
			sb.WriteString(text[i:])
			break
		}
		j += i
		end := j + len(old)
		okL := j == 0 || text[j-1] == ' ' || text[j-1] == '('
		okR := end == len(text) || text[end] == ' ' || text[end] == ')'
		sb.WriteString(text[i:j])
		if okL && okR {
			sb.WriteString(new)
		} else {
			sb.WriteString(old)
		}
		i = end
	}
	return sb.String()
}


// boxFns declares, once per array sort, an injection of Int handles into the
// arrays of that sort (unbox) and its inverse on the handles (box). Opaque
// spec functions and lemma closures quantify over handles instead of over
// array-sorted variables. The extension is conservative: unbox may enumerate,
// injectively, any countable set containing the finitely many array values
// that occur, and box is its inverse there.
func (vc *FuncVC) boxFns(srt Sort) (string, string) {
	id := sanitize(strings.NewReplacer("(", "", ")", "", " ", "_").Replace(string(srt)))
	box, unbox := "box_"+id, "unbox_"+id
	if !vc.subFuncs[box] {
		vc.subFuncs[box] = true
		vc.extraDecls = append(vc.extraDecls,
			fmt.Sprintf("(declare-fun %s (%s) Int)", box, srt),
			fmt.Sprintf("(declare-fun %s (Int) %s)", unbox, srt),
			fmt.Sprintf("(assert (forall ((i Int)) (! (= (%s (%s i)) i) :pattern ((%s i)))))", box, unbox, unbox))
	}
	return box, unbox
}


// typedPred names the predicate "the array behind this handle holds values in
// the range of the component's Go type"; "" if there is nothing to say.
func (vc *FuncVC) typedPred(key string, srt Sort) string {
	_, unbox := vc.boxFns(srt)
	probe := vc.arrayTyped(key, Term{"(" + unbox + " i?)", srt})
	if probe.IsTrue() {
		return ""
	}
	name := "typedh_" + sanitize(key) + "_" + sanitize(strings.NewReplacer("(", "", ")", "", " ", "_").Replace(string(srt)))
	if !vc.subFuncs[name] {
		vc.subFuncs[name] = true
		vc.extraDecls = append(vc.extraDecls,
			fmt.Sprintf("(declare-fun %s (Int) Bool)", name),
			fmt.Sprintf("(assert (forall ((i? Int)) (! (=> (%s i?) %s) :pattern ((%s i?)))))", name, probe.S, name))
	}
	return name
}


// offsetOf finds X in the first occurrence of (+ X v) in text where X does not
// mention v and is closed with respect to other bound variables of the clause
// nested inside (those carry a '?' in their names and may be bound deeper).
func offsetOf(text, v string) (string, bool) {
	i := 0
	for {
		j := strings.Index(text[i:], "(+ ")
		if j < 0 {
			return "", false
		}
		j += i
		st := j + 3
		end := st
		if text[st] == '(' {
			d := 0
			for end = st; end < len(text); end++ {
				if text[end] == '(' {
					d++
				} else if text[end] == ')' {
					d--
					if d == 0 {
						end++
						break
					}
				}
			}
		} else {
			for end < len(text) && text[end] != ' ' && text[end] != ')' {
				end++
			}
		}
		x := text[st:end]
		if strings.HasPrefix(text[end:], " "+v+")") && !containsToken(x, v) && !strings.Contains(x, "?") {
			return x, true
		}
		i = j + 1
	}
}


// boxed: does this package pass array-valued heap arguments as Int handles
// ("default heapargs boxed")? Needed where goals mix opaque functions or lemma
// closures with array-store reasoning; the plain encoding is kept elsewhere
// because it is what the existing proofs were tuned against.
func (vc *FuncVC) boxed() bool {
	return vc.cf != nil && vc.cf.Default.HeapArgs == "boxed"
}
