package main

import (
	"fmt"
	"go/types"
	"sort"
	"strings"

	"golang.org/x/tools/go/ssa"
)

const preludeText = `(set-option :produce-models true)
(set-logic ALL)
(declare-fun reftag (Int) Int)
(declare-fun refowner (Int) Int)
(declare-fun refindex (Int) Int)
(declare-fun refroot (Int) Int)
(declare-fun elemref (Int Int) Int)
(assert (= (refroot 0) 0))
(assert (forall ((b Int) (i Int)) (! (and (= (reftag (elemref b i)) (- 1)) (= (refowner (elemref b i)) b) (= (refindex (elemref b i)) i) (= (refroot (elemref b i)) (refroot b)) (=> (not (= b 0)) (> (elemref b i) 0))) :pattern ((elemref b i)))))
(define-fun tdiv ((x Int) (y Int)) Int (ite (> y 0) (ite (>= x 0) (div x y) (- (div (- x) y))) (ite (>= x 0) (- (div x (- y))) (div (- x) (- y)))))
(define-fun tmod ((x Int) (y Int)) Int (- x (* y (tdiv x y))))
(declare-fun iand (Int Int) Int)
(declare-fun ior (Int Int) Int)
(declare-fun ixor (Int Int) Int)
(declare-fun iandnot (Int Int) Int)
(declare-fun pow2 (Int) Int)
(assert (= (pow2 0) 1))
(assert (forall ((n Int)) (! (>= (pow2 n) 1) :pattern ((pow2 n)))))
(assert (forall ((n Int) (m Int)) (! (=> (<= n m) (<= (pow2 n) (pow2 m))) :pattern ((pow2 n) (pow2 m)))))
`

type FuncResult struct {
	Name        string
	Key         string
	Pkg         string
	Mode        string
	Obls        []*Obligation
	Notes       []string
	Unsupported string
	ContractErr string
	Trusted     string
	Lines       int
}

// VerifyFunc generates all obligations for one function under its contract.
func (p *Prog) VerifyFunc(fn *ssa.Function, fc *FuncContract, cf *ContractFile, tier string) (res *FuncResult) {
	res = &FuncResult{Name: funcKeyQualified(fn), Key: funcKey(fn)}
	if fn.Pkg != nil {
		res.Pkg = fn.Pkg.Pkg.Path()
	}
	mode := ModeBV
	ms := ""
	if fc != nil {
		ms = fc.Mode
	}
	if ms == "" && cf != nil {
		ms = cf.Default.Mode
	}
	if ms == "int" {
		mode = ModeInt
	}
	res.Mode = "bv"
	if mode == ModeInt {
		res.Mode = "int"
	}
	if fc != nil && fc.Trusted != "" {
		res.Trusted = fc.Trusted
		return res
	}
	vc := newFuncVC(p, fn, fc, cf, mode, tier)
	defer func() {
		if r := recover(); r != nil {
			switch e := r.(type) {
			case unsupportedErr:
				res.Unsupported = e.msg
				res.Obls = nil
			case specErr:
				res.ContractErr = e.msg
				res.Obls = nil
			default:
				panic(r)
			}
		}
		res.Notes = vc.notes
	}()
	fr := vc.newFrame(fn, fc, cf, "", 0)
	fr.top = true
	vc.topFrame = fr
	st := &State{Locals: map[*ssa.Alloc]Val{}, Heap: map[string]Term{}}
	st.Alloc = vc.sc.DeclP("alloc0", SInt)
	vc.sc.AssumeP(app(SBool, ">=", st.Alloc, intLit64(1)), "allocation counter starts positive")
	vc.entryState = st
	// parameters
	for i, prm := range fn.Params {
		v := vc.freshValNoAssume("arg_"+prm.Name(), prm.Type())
		vc.sc.Assume(vc.wellTyped(v, st), "type invariant of parameter "+prm.Name())
		vc.sc.Assume(vc.ptrAllocated(v, st), "")
		fr.params = append(fr.params, v)
		fr.vals[prm] = v
		if i == 0 && fn.Signature.Recv() != nil && (fc == nil || !fc.NilableRcv) {
			if fv, ok := v.(*FV); ok {
				if _, isPtr := fv.T.Underlying().(*types.Pointer); isPtr {
					vc.sc.Assume(mkNot(mkEq(fv.L[0], intLit64(0))), "receiver is not nil")
				}
			}
		}
	}
	if len(fn.FreeVars) > 0 {
		for _, fv := range fn.FreeVars {
			v := vc.freshVal("free_"+fv.Name(), fv.Type(), st)
			fr.vals[fv] = v
		}
	}
	vc.assumeLemmas(st)
	vc.buildReplay(fn, fr.params, st)
	fr.entry = st.clone()
	reach := tTrue
	fr.curReach = tTrue
	// requires
	if fc != nil {
		env := fr.specEnv(fr.entry, "requires")
		fr.bindParams(env)
		env.locals = nil
		var reqs []Term
		for _, c := range fc.Requires {
			t := env.Bool(c.Expr)
			reqs = append(reqs, t)
			vc.sc.Assume(t, "requires: "+c.Src)
		}
		// vacuity: the precondition must be satisfiable
		if len(reqs) > 0 {
			vc.obls = append(vc.obls, &Obligation{Name: res.Name + "#vacuity.requires", Kind: "vacuity", Func: res.Name,
				Pos: vc.sc.Pos(), Goal: tFalse, Script: vc.sc, ExpectSat: true, Desc: "requires is satisfiable", VC: vc})
		}
	}
	if fc != nil && !fc.ModAll {
		vc.mods = fr.computeMods()
	}
	rets := fr.run(st, reach)
	// post-conditions
	if len(rets) > 0 {
		var edges []inEdge
		for _, r := range rets {
			edges = append(edges, inEdge{r.reach, r.st})
		}
		final, freach := vc.mergeStates(edges)
		nres := fn.Signature.Results().Len()
		var results []Val
		for i := 0; i < nres; i++ {
			var acc Val
			for j := len(rets) - 1; j >= 0; j-- {
				if acc == nil {
					acc = rets[j].results[i]
				} else {
					acc = vc.mergeVal(rets[j].reach, rets[j].results[i], acc, "result")
				}
			}
			results = append(results, acc)
		}
		fr.curInstr = nil
		fr.curReach = freach
		if fc != nil {
			env := fr.specEnv(final, "ensures")
			fr.bindParams(env)
			env.locals = nil
			for i, r := range results {
				if n := fn.Signature.Results().At(i).Name(); n != "" && n != "_" {
					env.vars[n] = r
				}
				env.vars[fmt.Sprintf("result%d", i)] = r
			}
			if len(results) > 0 {
				env.vars["result"] = results[0]
			}
			firstPost := len(vc.obls)
			for j, c := range fc.Ensures {
				name := fmt.Sprintf("post.%d", j+1)
				if c.Name != "" {
					name = "post." + c.Name
				}
				if strings.HasSuffix(c.Name, "@thorough") && tier != "thorough" {
					vc.note("post-condition %s is proved only in the thorough tier (callers assume it)", strings.TrimSuffix(c.Name, "@thorough"))
					continue
				}
				fr.obligeParts(strings.TrimSuffix(name, "@thorough"), "post", freach, env, c)
			}
			mainPosts := vc.obls[firstPost:]
			// alternatives: the same post-conditions per return point (used only
			// when the merged obligation does not discharge; all of them together
			// imply the merged one)
			if len(rets) > 1 && len(rets) <= 12 && len(mainPosts) > 0 {
				saved := vc.obls
				for rj, r := range rets {
					vc.obls = nil
					renv := fr.specEnv(r.st, "ensures")
					fr.bindParams(renv)
					renv.locals = nil
					for i, rv := range r.results {
						if n := fn.Signature.Results().At(i).Name(); n != "" && n != "_" {
							renv.vars[n] = rv
						}
						renv.vars[fmt.Sprintf("result%d", i)] = rv
					}
					if len(r.results) > 0 {
						renv.vars["result"] = r.results[0]
					}
					for j, c := range fc.Ensures {
						name := fmt.Sprintf("post.%d", j+1)
						if c.Name != "" {
							name = "post." + c.Name
						}
						if strings.HasSuffix(c.Name, "@thorough") && tier != "thorough" {
							continue
						}
						fr.obligeParts(strings.TrimSuffix(name, "@thorough"), "post", r.reach, renv, c)
					}
					byName := map[string]*Obligation{}
					for _, a := range vc.obls {
						byName[a.Name] = a
					}
					for _, m := range mainPosts {
						if a, ok := byName[m.Name]; ok {
							a.Name = fmt.Sprintf("%s.ret%d", a.Name, rj+1)
							m.Alts = append(m.Alts, a)
						}
					}
				}
				vc.obls = saved
				for _, m := range mainPosts {
					m.HasAlts = true
				}
			}
			if !fc.ModAll {
				fr.frameObligations(final, freach)
			}
			// vacuity: the end of the function must be reachable
			vc.obls = append(vc.obls, &Obligation{Name: res.Name + "#vacuity.exit", Kind: "vacuity", Func: res.Name,
				Pos: vc.sc.Pos(), Goal: mkNot(freach), Script: vc.sc, ExpectSat: true, Desc: "function exit is reachable", VC: vc})
		}
	}
	res.Obls = vc.obls
	return res
}

func newFuncVC(p *Prog, fn *ssa.Function, fc *FuncContract, cf *ContractFile, mode Mode, tier string) *FuncVC {
	return &FuncVC{prog: p, fn: fn, fc: fc, cf: cf, enc: &Enc{Mode: mode}, sc: NewScript(), entry: map[string]Term{},
		entrySorts: map[string]Sort{}, counters: map[string]int{}, typeIDs: map[string]int{}, strLits: map[string]Term{},
		funcIDs: map[string]int{}, subFuncs: map[string]bool{}, prov: map[string]provInfo{}, globalRefs: map[string]Term{}, tier: tier}
}

// VerifyLemma checks a lemma block: its ensures clauses must hold in every
// state (with `expand`, quantifiers over constant ranges are unrolled and table
// reads fold to literals, i.e. the lemma is proved by ground evaluation).
func (p *Prog) VerifyLemma(fc *FuncContract, cf *ContractFile, pkgName string, tier string) (res *FuncResult) {
	name := pkgName + "." + strings.TrimPrefix(fc.Key, "lemma:")
	res = &FuncResult{Name: "lemma " + name, Key: fc.Key}
	mode := ModeBV
	ms := fc.Mode
	if ms == "" {
		ms = cf.Default.Mode
	}
	if ms == "int" {
		mode = ModeInt
	}
	res.Mode = map[Mode]string{ModeBV: "bv", ModeInt: "int"}[mode]
	vc := newFuncVC(p, nil, fc, cf, mode, tier)
	vc.lemmaName = "lemma " + name
	defer func() {
		if r := recover(); r != nil {
			switch e := r.(type) {
			case unsupportedErr:
				res.Unsupported = e.msg
				res.Obls = nil
			case specErr:
				res.ContractErr = e.msg
				res.Obls = nil
			default:
				panic(r)
			}
		}
	}()
	st := &State{Locals: map[*ssa.Alloc]Val{}, Heap: map[string]Term{}}
	st.Alloc = vc.sc.DeclP("alloc0", SInt)
	vc.sc.AssumeP(app(SBool, ">=", st.Alloc, intLit64(1)), "")
	vc.entryState = st
	env := &SpecEnv{vc: vc, cf: cf, pkg: cf.PkgTypes, vars: map[string]Val{}, oldVars: map[string]Val{}, cur: st, old: st, allocOld: st.Alloc, where: "lemma " + name, expand: fc.Expand}
	for _, prm := range fc.Params {
		pt := env.lookupType(prm.Type)
		if pt == nil {
			panic(specErr{"lemma " + name + ": unknown parameter type"})
		}
		env.vars[prm.Name] = vc.freshVal("lemma_"+prm.Name, pt, st)
	}
	for _, c := range fc.Requires {
		vc.sc.Assume(env.Bool(c.Expr), "lemma hypothesis")
	}
	for j, c := range fc.Ensures {
		parts := env.BoolParts(c.Expr)
		for k, g := range parts {
			ob := &Obligation{Name: fmt.Sprintf("%s#%d.%d", vc.lemmaName, j+1, k+1), Kind: "lemma", Func: vc.lemmaName, Pos: vc.sc.Pos(), Goal: g, Script: vc.sc,
				Src: fmt.Sprintf("%s:%d", shortPath(cf.Path), c.Line), Desc: c.Src, VC: vc}
			if g.IsTrue() {
				ob.Status, ob.Solver = "unsat", "ground-evaluation"
				ob.Pre = true
			}
			vc.obls = append(vc.obls, ob)
		}
	}
	res.Obls = vc.obls
	return res
}

// assumeLemmas adds the lemmas named by `uses` as assumptions (their proofs
// are separate obligations of the lemma blocks).
func (vc *FuncVC) assumeLemmas(st *State) {
	if vc.cf != nil {
		// package-level axioms (listed in the evidence as assumptions)
		for _, ax := range vc.cf.Axioms {
			env := &SpecEnv{vc: vc, cf: vc.cf, pkg: vc.cf.PkgTypes, vars: map[string]Val{}, oldVars: map[string]Val{}, cur: st, old: st, allocOld: st.Alloc, where: "axiom " + ax.Name}
			if len(ax.Vars) == 0 {
				for _, t := range env.BoolParts(ax.C.Expr) {
					vc.sc.AssumeP(t, "axiom "+ax.Name)
				}
				continue
			}
			var binders []string
			for _, v := range ax.Vars {
				pt := env.lookupType(v.Type)
				if pt == nil {
					panic(specErr{"axiom " + ax.Name + ": unknown variable type"})
				}
				name := fmt.Sprintf("%s?ax%d", v.Name, vc.sc.n)
				vc.sc.n++
				srt := vc.enc.scalarSort(pt)
				env.vars[v.Name] = scalar(pt, Term{name, srt})
				binders = append(binders, fmt.Sprintf("(%s %s)", name, srt))
			}
			body := env.Bool(ax.C.Expr)
			vc.sc.AssumeP(Term{fmt.Sprintf("(forall (%s) %s)", strings.Join(binders, " "), body.S), SBool}, "axiom "+ax.Name)
		}
	}
	if vc.fc == nil || vc.cf == nil {
		return
	}
	for _, name := range vc.fc.Uses {
		lf := vc.cf.Funcs["lemma:"+name]
		if lf == nil {
			panic(specErr{"uses " + name + ": no such lemma"})
		}
		if len(lf.Params) > 0 {
			panic(specErr{"uses " + name + ": parameterised lemmas cannot be assumed wholesale"})
		}
		env := &SpecEnv{vc: vc, cf: vc.cf, pkg: vc.cf.PkgTypes, vars: map[string]Val{}, oldVars: map[string]Val{}, cur: st, old: st, allocOld: st.Alloc, where: "lemma " + name}
		for _, c := range lf.Ensures {
			vc.sc.AssumeP(env.Bool(c.Expr), "lemma "+name+": "+c.Src)
		}
	}
}

func (vc *FuncVC) collectModel(name string, v Val) {
	switch x := v.(type) {
	case *FV:
		ls := vc.enc.Leaves(x.T)
		for i, t := range x.L {
			n := name
			if len(x.L) > 1 {
				n += "." + ls[i].Name
			}
			vc.modelVars = append(vc.modelVars, modelVar{n, t.S})
		}
	case *SV:
		su := x.T.Underlying().(*types.Struct)
		for i, f := range x.F {
			vc.collectModel(name+"."+su.Field(i).Name(), f)
		}
	}
}

// frameObligations: every heap location that existed at entry and is not
// covered by the modifies clause is unchanged.
type modSet struct {
	all  bool
	refs []Term
}

// computeMods evaluates the modifies clause in the entry state: heap key -> permitted references.
func (fr *Frame) computeMods() map[string]*modSet {
	vc := fr.vc
	enc := vc.enc
	fc := fr.fc
	mods := map[string]*modSet{}
	add := func(key string, ref Term) {
		m := mods[key]
		if m == nil {
			m = &modSet{}
			mods[key] = m
		}
		m.refs = append(m.refs, ref)
	}
	env := fr.specEnv(fr.entry, "modifies")
	fr.bindParams(env)
	env.locals = nil
	var addObj func(t types.Type, ref Term)
	var addField func(stT types.Type, i int, ref Term)
	addField = func(stT types.Type, i int, ref Term) {
		su := stT.Underlying().(*types.Struct)
		ft := su.Field(i).Type()
		if isAggregate(ft) {
			addObj(ft, vc.subRef(stT, i, ref))
			return
		}
		for _, l := range enc.Leaves(ft) {
			add(vc.fieldKey(stT, i, l.Name), ref)
		}
	}
	addObj = func(t types.Type, ref Term) {
		switch u := t.Underlying().(type) {
		case *types.Struct:
			for i := 0; i < u.NumFields(); i++ {
				addField(t, i, ref)
			}
		case *types.Array:
			for _, l := range enc.Leaves(u.Elem()) {
				add(vc.memKey(u.Elem(), l.Name), ref)
			}
		default:
			for _, l := range enc.Leaves(t) {
				add(vc.cellKey(t, l.Name), ref)
			}
		}
	}
	for _, m := range fc.Modifies {
		e := m.Expr
		switch x := e.(type) {
		case *astCall:
			if id, ok := x.Fun.(*astIdent); ok && id.Name == "mem" {
				mv := env.tr(x).(*MemV)
				for _, l := range enc.Leaves(mv.Elem) {
					add(vc.memKey(mv.Elem, l.Name), mv.Base)
				}
				continue
			}
			if id, ok := x.Fun.(*astIdent); ok {
				if sf, ok := env.lookupSpec(id.Name); ok && sf.Heap {
					p := env.tr(x.Args[0]).(*FV)
					add("H|ghost|"+sf.Name+"|v", p.L[0])
					continue
				}
			}
			vc.unsupportedf("unsupported modifies clause %s", exprString(e))
		case *astSelector:
			base := env.tr(x.X).(*FV)
			pt := base.T.Underlying().(*types.Pointer)
			su := pt.Elem().Underlying().(*types.Struct)
			i := findField(su, x.Sel.Name)
			if i < 0 {
				vc.unsupportedf("modifies %s: no such field", exprString(e))
			}
			addField(pt.Elem(), i, base.L[0])
		case *astStar:
			p := env.tr(x.X).(*FV)
			addObj(p.T.Underlying().(*types.Pointer).Elem(), p.L[0])
		case *astIdent:
			if env.pkg != nil {
				if obj, ok := env.pkg.Scope().Lookup(x.Name).(*types.Var); ok {
					for _, l := range enc.Leaves(obj.Type()) {
						mods["G|"+env.pkg.Name()+"."+x.Name+"|"+l.Name] = &modSet{all: true}
					}
					continue
				}
			}
			vc.unsupportedf("unsupported modifies clause %s", exprString(e))
		default:
			vc.unsupportedf("unsupported modifies clause %s", exprString(e))
		}
	}
	return mods
}

func (fr *Frame) frameObligations(final *State, reach Term) {
	vc := fr.vc
	fc := fr.fc
	mods := vc.mods
	if mods == nil {
		mods = fr.computeMods()
	}
	var keys []string
	for k := range final.Heap {
		keys = append(keys, k)
	}
	sort.Strings(keys)
	for _, k := range keys {
		fin := final.Heap[k]
		ent := vc.heapGet(fr.entry, k, vc.entrySorts[k])
		if fin.S == ent.S {
			continue
		}
		m := mods[k]
		if m != nil && m.all {
			continue
		}
		short := strings.ReplaceAll(strings.TrimSuffix(k, "|v"), "|", ".")
		if !fin.Sort.IsArr() {
			fr.obligeNamed("frame."+short, "frame", reach, mkEq(fin, ent), "global "+k+" unchanged", fc.Line)
			continue
		}
		r := vc.sc.Decl("frame_r", SInt)
		conds := []Term{app(SBool, "<", app(SInt, "refroot", r), fr.entry.Alloc), app(SBool, ">=", r, intLit64(0))}
		if m != nil {
			for _, ref := range m.refs {
				conds = append(conds, mkNot(mkEq(r, ref)))
			}
		}
		fr.obligeNamed("frame."+short, "frame", mkAnd(append([]Term{reach}, conds...)...), mkEq(mkSelect(fin, r), mkSelect(ent, r)),
			"locations of "+k+" outside the modifies clause are unchanged", fc.Line)
	}
}
