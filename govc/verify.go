package main

import (
	"fmt"
	"go/types"
	"sort"
	"strings"

	"golang.org/x/tools/go/ssa"
)

const preludeText = `(set-option :produce-models true)
(set-logic ALL)
(declare-fun reftag (Int) Int)
(declare-fun refowner (Int) Int)
(declare-fun refindex (Int) Int)
(declare-fun refroot (Int) Int)
(declare-fun elemref (Int Int) Int)
(assert (= (refroot 0) 0))
(assert (forall ((b Int) (i Int)) (! (and (= (reftag (elemref b i)) (- 1)) (= (refowner (elemref b i)) b) (= (refindex (elemref b i)) i) (= (refroot (elemref b i)) (refroot b)) (=> (not (= b 0)) (> (elemref b i) 0))) :pattern ((elemref b i)))))
(define-fun tdiv ((x Int) (y Int)) Int (ite (> y 0) (ite (>= x 0) (div x y) (- (div (- x) y))) (ite (>= x 0) (- (div x (- y))) (div (- x) (- y)))))
(define-fun tmod ((x Int) (y Int)) Int (- x (* y (tdiv x y))))
(declare-fun iand (Int Int) Int)
(declare-fun ior (Int Int) Int)
(declare-fun ixor (Int Int) Int)
(declare-fun iandnot (Int Int) Int)
(declare-fun pow2 (Int) Int)
(assert (= (pow2 0) 1))
(assert (forall ((n Int)) (! (>= (pow2 n) 1) :pattern ((pow2 n)))))
(assert (forall ((n Int) (m Int)) (! (=> (<= n m) (<= (pow2 n) (pow2 m))) :pattern ((pow2 n) (pow2 m)))))
`

type FuncResult struct {
	Name        string
	Key         string
	Pkg         string
	Mode        string
	Obls        []*Obligation
	Notes       []string
	Unsupported string
	ContractErr string
	Trusted     string
	Lines       int
}

// VerifyFunc generates all obligations for one function under its contract.
func (p *Prog) VerifyFunc(fn *ssa.Function, fc *FuncContract, cf *ContractFile, tier string) (res *FuncResult) {
	res = &FuncResult{Name: funcKeyQualified(fn), Key: funcKey(fn)}
	if fn.Pkg != nil {
		res.Pkg = fn.Pkg.Pkg.Path()
	}
	mode := ModeBV
	ms := ""
	if fc != nil {
		ms = fc.Mode
	}
	if ms == "" && cf != nil {
		ms = cf.Default.Mode
	}
	if ms == "int" {
		mode = ModeInt
	}
	res.Mode = "bv"
	if mode == ModeInt {
		res.Mode = "int"
	}
	if fc != nil && fc.Trusted != "" {
		res.Trusted = fc.Trusted
		return res
	}
	vc := newFuncVC(p, fn, fc, cf, mode, tier)
	defer func() {
		if r := recover(); r != nil {
			switch e := r.(type) {
			case unsupportedErr:
				res.Unsupported = e.msg
				res.Obls = nil
			case specErr:
				res.ContractErr = e.msg
				res.Obls = nil
			default:
				panic(r)
			}
		}
		res.Notes = vc.notes
	}()
	fr := vc.newFrame(fn, fc, cf, "", 0)
	fr.top = true
	vc.topFrame = fr
	st := &State{Locals: map[*ssa.Alloc]Val{}, Heap: map[string]Term{}}
	st.Alloc = vc.sc.DeclP("alloc0", SInt)
	vc.sc.AssumeP(app(SBool, ">=", st.Alloc, intLit64(1)), "allocation counter starts positive")
	vc.entryState = st
	// parameters
	for i, prm := range fn.Params {
		v := vc.freshValNoAssume("arg_"+prm.Name(), prm.Type())
		vc.sc.Assume(vc.wellTyped(v, st), "type invariant of parameter "+prm.Name())
		vc.sc.Assume(vc.ptrAllocated(v, st), "")
		fr.params = append(fr.params, v)
		fr.vals[prm] = v
		if i == 0 && fn.Signature.Recv() != nil && (fc == nil || !fc.NilableRcv) {
			if fv, ok := v.(*FV); ok {
				if _, isPtr := fv.T.Underlying().(*types.Pointer); isPtr {
					vc.sc.Assume(mkNot(mkEq(fv.L[0], intLit64(0))), "receiver is not nil")
				}
			}
		}
	}
	if len(fn.FreeVars) > 0 {
		for _, fv := range fn.FreeVars {
			v := vc.freshVal("free_"+fv.Name(), fv.Type(), st)
			fr.vals[fv] = v
		}
	}
	vc.assumeLemmas(st)
	vc.buildReplay(fn, fr.params, st)
	fr.entry = st.clone()
	reach := tTrue
	fr.curReach = tTrue
	// requires
	if fc != nil {
		env := fr.specEnv(fr.entry, "requires")
		fr.bindParams(env)
		env.locals = nil
		var reqs []Term
		for _, c := range fc.Requires {
			t := env.Bool(c.Expr)
			reqs = append(reqs, t)
			vc.sc.Assume(t, "requires: "+c.Src)
		}
		// vacuity: the precondition must be satisfiable
		if len(reqs) > 0 {
			vc.obls = append(vc.obls, &Obligation{Name: res.Name + "#vacuity.requires", Kind: "vacuity", Func: res.Name,
				Pos: vc.sc.Pos(), Goal: tFalse, Script: vc.sc, ExpectSat: true, Desc: "requires is satisfiable", VC: vc})
		}
	}
	if fc != nil && !fc.ModAll {
		vc.mods = fr.computeMods()
	}
	vc.bodyStart = vc.sc.Pos()
	if fc != nil {
		for i := range fc.CallAssert {
			fc.CallAssert[i].Matched = false
		}
		for i := range fc.CallAssume {
			fc.CallAssume[i].Matched = false
		}
	}
	rets := fr.run(st, reach)
	if fc != nil {
		// a call-site directive that matched no call is a stale contract, not a silent no-op
		for _, ca := range fc.CallAssert {
			if !ca.Matched {
				panic(specErr{fmt.Sprintf("assert@call %s#%d matches no call in %s", ca.Callee, ca.K, res.Name)})
			}
		}
		for _, ca := range fc.CallAssume {
			if !ca.Matched {
				panic(specErr{fmt.Sprintf("assume@after %s#%d matches no call in %s", ca.Callee, ca.K, res.Name)})
			}
		}
	}
	// post-conditions
	if len(rets) > 0 {
		var edges []inEdge
		for _, r := range rets {
			edges = append(edges, inEdge{r.reach, r.st})
		}
		final, freach := vc.mergeStates(edges)
		nres := fn.Signature.Results().Len()
		var results []Val
		for i := 0; i < nres; i++ {
			var acc Val
			for j := len(rets) - 1; j >= 0; j-- {
				if acc == nil {
					acc = rets[j].results[i]
				} else {
					acc = vc.mergeVal(rets[j].reach, rets[j].results[i], acc, "result")
				}
			}
			results = append(results, acc)
		}
		fr.curInstr = nil
		fr.curReach = freach
		if fc != nil {
			env := fr.specEnv(final, "ensures")
			fr.bindParams(env)
			env.locals = nil
			for i, r := range results {
				if n := fn.Signature.Results().At(i).Name(); n != "" && n != "_" {
					env.vars[n] = r
				}
				env.vars[fmt.Sprintf("result%d", i)] = r
			}
			if len(results) > 0 {
				env.vars["result"] = results[0]
			}
			firstPost := len(vc.obls)
			for j, c := range fc.Ensures {
				name := fmt.Sprintf("post.%d", j+1)
				if c.Name != "" {
					name = "post." + c.Name
				}
				if strings.HasSuffix(c.Name, "@thorough") && tier != "thorough" {
					vc.note("post-condition %s is proved only in the thorough tier (callers assume it)", strings.TrimSuffix(c.Name, "@thorough"))
					continue
				}
				fr.obligeParts(strings.TrimSuffix(name, "@thorough"), "post", freach, env, c)
			}
			mainPosts := vc.obls[firstPost:]
			// alternatives: the same post-conditions per return point (used only
			// when the merged obligation does not discharge; all of them together
			// imply the merged one)
			if len(rets) > 1 && len(rets) <= 12 && len(mainPosts) > 0 {
				saved := vc.obls
				for rj, r := range rets {
					vc.obls = nil
					renv := fr.specEnv(r.st, "ensures")
					fr.bindParams(renv)
					renv.locals = nil
					for i, rv := range r.results {
						if n := fn.Signature.Results().At(i).Name(); n != "" && n != "_" {
							renv.vars[n] = rv
						}
						renv.vars[fmt.Sprintf("result%d", i)] = rv
					}
					if len(r.results) > 0 {
						renv.vars["result"] = r.results[0]
					}
					for j, c := range fc.Ensures {
						name := fmt.Sprintf("post.%d", j+1)
						if c.Name != "" {
							name = "post." + c.Name
						}
						if strings.HasSuffix(c.Name, "@thorough") && tier != "thorough" {
							continue
						}
						fr.obligeParts(strings.TrimSuffix(name, "@thorough"), "post", r.reach, renv, c)
					}
					byName := map[string]*Obligation{}
					for _, a := range vc.obls {
						byName[a.Name] = a
					}
					for _, m := range mainPosts {
						if a, ok := byName[m.Name]; ok {
							a.Name = fmt.Sprintf("%s.ret%d", a.Name, rj+1)
							m.Alts = append(m.Alts, a)
						}
					}
				}
				vc.obls = saved
				for _, m := range mainPosts {
					m.HasAlts = true
				}
			}
			if !fc.ModAll {
				fr.frameObligations(final, freach)
			}
			// vacuity: the end of the function must be reachable
			vc.obls = append(vc.obls, &Obligation{Name: res.Name + "#vacuity.exit", Kind: "vacuity", Func: res.Name,
				Pos: vc.sc.Pos(), Goal: mkNot(freach), Script: vc.sc, ExpectSat: true, Desc: "function exit is reachable", VC: vc})
		}
	}
	res.Obls = vc.obls
	return res
}

func newFuncVC(p *Prog, fn *ssa.Function, fc *FuncContract, cf *ContractFile, mode Mode, tier string) *FuncVC {
	vc := newFuncVC0(p, fn, fc, cf, mode, tier)
	vc.enc.onPow2 = func(y Term) {
		// exact value of pow2 for shift counts in [0,64] (quantified counts are
		// skipped; Script.Assume drops duplicates that are still in scope)
		if strings.Contains(y.S, "?") {
			return
		}
		chain := intLit(new(bigInt).Lsh(bigOne, 64))
		for k := 63; k >= 0; k-- {
			chain = mkIte(mkEq(y, intLit64(int64(k))), intLit(new(bigInt).Lsh(bigOne, uint(k))), chain)
		}
		vc.sc.Assume(mkImplies(mkAnd(app(SBool, ">=", y, intLit64(0)), app(SBool, "<=", y, intLit64(64))), mkEq(app(SInt, "pow2", y), chain)), "pow2 of a shift count in [0,64]")
	}
	return vc
}

func newFuncVC0(p *Prog, fn *ssa.Function, fc *FuncContract, cf *ContractFile, mode Mode, tier string) *FuncVC {
	return &FuncVC{prog: p, fn: fn, fc: fc, cf: cf, enc: &Enc{Mode: mode}, sc: NewScript(), entry: map[string]Term{},
		entrySorts: map[string]Sort{}, counters: map[string]int{}, typeIDs: map[string]int{}, strLits: map[string]Term{},
		funcIDs: map[string]int{}, subFuncs: map[string]bool{}, prov: map[string]provInfo{}, globalRefs: map[string]Term{}, tier: tier}
}

// VerifyLemma checks a lemma block: its ensures clauses must hold in every
// state (with `expand`, quantifiers over constant ranges are unrolled and table
// reads fold to literals, i.e. the lemma is proved by ground evaluation).
func (p *Prog) VerifyLemma(fc *FuncContract, cf *ContractFile, pkgName string, tier string) (res *FuncResult) {
	name := pkgName + "." + strings.TrimPrefix(fc.Key, "lemma:")
	res = &FuncResult{Name: "lemma " + name, Key: fc.Key}
	mode := ModeBV
	ms := fc.Mode
	if ms == "" {
		ms = cf.Default.Mode
	}
	if ms == "int" {
		mode = ModeInt
	}
	res.Mode = map[Mode]string{ModeBV: "bv", ModeInt: "int"}[mode]
	vc := newFuncVC(p, nil, fc, cf, mode, tier)
	vc.lemmaName = "lemma " + name
	defer func() {
		if r := recover(); r != nil {
			switch e := r.(type) {
			case unsupportedErr:
				res.Unsupported = e.msg
				res.Obls = nil
			case specErr:
				res.ContractErr = e.msg
				res.Obls = nil
			default:
				panic(r)
			}
		}
	}()
	st := &State{Locals: map[*ssa.Alloc]Val{}, Heap: map[string]Term{}}
	st.Alloc = vc.sc.DeclP("alloc0", SInt)
	vc.sc.AssumeP(app(SBool, ">=", st.Alloc, intLit64(1)), "")
	vc.entryState = st
	env := &SpecEnv{vc: vc, cf: cf, pkg: cf.PkgTypes, vars: map[string]Val{}, oldVars: map[string]Val{}, cur: st, old: st, allocOld: st.Alloc, where: "lemma " + name, expand: fc.Expand}
	for _, prm := range fc.Params {
		pt := env.lookupType(prm.Type)
		if pt == nil {
			panic(specErr{"lemma " + name + ": unknown parameter type"})
		}
		env.vars[prm.Name] = vc.freshVal("lemma_"+prm.Name, pt, st)
	}
	if fc.Induct != "" {
		// induction on an integer parameter: the lemma may be assumed for the
		// predecessor; well-foundedness needs a lower bound ("induct m from lo")
		name, from, hasFrom := strings.Cut(fc.Induct, " from ")
		name = strings.TrimSpace(name)
		iv, ok := env.vars[name].(*FV)
		if !ok || len(iv.L) != 1 || iv.L[0].Sort != SInt || !hasFrom {
			panic(specErr{"lemma " + fc.Key + ": induct needs an integer parameter in mode int and a lower bound (induct m from lo)"})
		}
		if strings.Contains(" "+strings.NewReplacer("(", " ", ")", " ", ",", " ", "+", " ", "-", " ").Replace(from)+" ", " "+name+" ") {
			panic(specErr{"lemma " + fc.Key + ": the lower bound of the induction must not mention " + name})
		}
		fe, err := parseExprSrc(strings.TrimSpace(from), cf.Path, fc.Line)
		if err != nil {
			panic(specErr{err.Error()})
		}
		ih := &SpecEnv{vc: vc, cf: cf, pkg: cf.PkgTypes, vars: map[string]Val{}, oldVars: map[string]Val{}, cur: st, old: st, allocOld: st.Alloc, where: "lemma " + name + " (induction hypothesis)", expand: fc.Expand}
		for k, v := range env.vars {
			ih.vars[k] = v
		}
		ih.vars[name] = scalar(iv.T, app(SInt, "-", iv.L[0], intLit64(1)))
		var hyp, concl []Term
		for _, c := range fc.Requires {
			hyp = append(hyp, ih.Bool(c.Expr))
		}
		for _, c := range fc.Ensures {
			concl = append(concl, ih.Bool(c.Expr))
		}
		vc.sc.Assume(mkImplies(mkAnd(hyp...), mkAnd(concl...)), "induction hypothesis (the lemma at "+name+" - 1)")
		var req []Term
		for _, c := range fc.Requires {
			req = append(req, env.Bool(c.Expr))
		}
		lo := env.tr(fe)
		lo = env.coerce(lo, iv.T)
		g := mkImplies(mkAnd(req...), app(SBool, ">=", iv.L[0], lo.(*FV).L[0]))
		vc.obls = append(vc.obls, &Obligation{Name: fmt.Sprintf("%s#wellfounded", vc.lemmaName), Kind: "lemma", Func: vc.lemmaName, Pos: vc.sc.Pos(), Goal: g, Script: vc.sc,
			Src: fmt.Sprintf("%s:%d", shortPath(cf.Path), fc.Line), Desc: "induct " + fc.Induct + ": the hypotheses bound the induction variable from below", VC: vc})
	}
	for _, c := range fc.Requires {
		vc.sc.Assume(env.Bool(c.Expr), "lemma hypothesis")
	}
	// lemmas proved earlier in the file may be used (no cycles: file order)
	for _, u := range fc.Uses {
		lf := cf.Funcs["lemma:"+u]
		if lf == nil {
			panic(specErr{"lemma " + name + ": uses " + u + ": no such lemma"})
		}
		before := false
		for _, key := range cf.Order {
			if key == "lemma:"+u {
				before = true
				break
			}
			if key == fc.Key {
				break
			}
		}
		if !before {
			panic(specErr{"lemma " + name + ": uses " + u + ": a lemma may only use lemmas stated before it"})
		}
		if len(lf.Params) == 0 {
			panic(specErr{"lemma " + name + ": uses " + u + ": only parameterised lemmas can be used by a lemma"})
		}
		vc.assumeParamLemma(u, lf)
	}
	for j, c := range fc.Have {
		g := env.Bool(c.Expr)
		ob := &Obligation{Name: fmt.Sprintf("%s#have.%d", vc.lemmaName, j+1), Kind: "lemma", Func: vc.lemmaName, Pos: vc.sc.Pos(), Goal: g, Script: vc.sc,
			Src: fmt.Sprintf("%s:%d", shortPath(cf.Path), c.Line), Desc: c.Src, VC: vc}
		vc.obls = append(vc.obls, ob)
		vc.sc.Assume(g, "lemma step proved above")
	}
	for j, c := range fc.Ensures {
		parts := env.BoolParts(c.Expr)
		for k, g := range parts {
			// the clauses are proved in order; a proved clause may be used for the next ones
			ob := &Obligation{Name: fmt.Sprintf("%s#%d.%d", vc.lemmaName, j+1, k+1), Kind: "lemma", Func: vc.lemmaName, Pos: vc.sc.Pos(), Goal: g, Script: vc.sc,
				Src: fmt.Sprintf("%s:%d", shortPath(cf.Path), c.Line), Desc: c.Src, VC: vc}
			if g.IsTrue() {
				ob.Status, ob.Solver = "unsat", "ground-evaluation"
				ob.Pre = true
			}
			vc.obls = append(vc.obls, ob)
			vc.sc.Assume(g, "lemma clause proved above")
		}
	}
	res.Obls = vc.obls
	return res
}

// assumeLemmas adds the lemmas named by `uses` as assumptions (their proofs
// are separate obligations of the lemma blocks).
func (vc *FuncVC) assumeLemmas(st *State) {
	if vc.cf != nil {
		// package-level axioms (listed in the evidence as assumptions)
		for _, ax := range vc.cf.Axioms {
			// an axiom named opt_* is assumed only in the functions that name it in `uses`
			// (every quantified axiom in the context costs the solvers something)
			if strings.HasPrefix(ax.Name, "opt_") {
				used := false
				if vc.fc != nil {
					for _, u := range vc.fc.Uses {
						if u == ax.Name {
							used = true
						}
					}
				}
				if !used {
					continue
				}
			}
			env := &SpecEnv{vc: vc, cf: vc.cf, pkg: vc.cf.PkgTypes, vars: map[string]Val{}, oldVars: map[string]Val{}, cur: st, old: st, allocOld: st.Alloc, where: "axiom " + ax.Name}
			if len(ax.Vars) == 0 {
				for _, t := range env.BoolParts(ax.C.Expr) {
					vc.sc.AssumeP(t, "axiom "+ax.Name)
				}
				continue
			}
			var binders []string
			for _, v := range ax.Vars {
				pt := env.lookupType(v.Type)
				if pt == nil {
					panic(specErr{"axiom " + ax.Name + ": unknown variable type"})
				}
				name := fmt.Sprintf("%s?ax%d", v.Name, vc.sc.n)
				vc.sc.n++
				srt := vc.enc.scalarSort(pt)
				env.vars[v.Name] = scalar(pt, Term{name, srt})
				binders = append(binders, fmt.Sprintf("(%s %s)", name, srt))
			}
			body := env.Bool(ax.C.Expr)
			vc.sc.AssumeP(Term{fmt.Sprintf("(forall (%s) %s)", strings.Join(binders, " "), body.S), SBool}, "axiom "+ax.Name)
		}
	}
	if vc.fc == nil || vc.cf == nil {
		return
	}
	for _, name := range vc.fc.Uses {
		if strings.HasPrefix(name, "opt_") {
			continue // an opt-in axiom, handled above
		}
		lf := vc.cf.Funcs["lemma:"+name]
		if lf == nil {
			panic(specErr{"uses " + name + ": no such lemma"})
		}
		if len(lf.Params) > 0 {
			vc.assumeParamLemma(name, lf)
			continue
		}
		env := &SpecEnv{vc: vc, cf: vc.cf, pkg: vc.cf.PkgTypes, vars: map[string]Val{}, oldVars: map[string]Val{}, cur: st, old: st, allocOld: st.Alloc, where: "lemma " + name}
		for _, c := range lf.Ensures {
			vc.sc.AssumeP(env.Bool(c.Expr), "lemma "+name+": "+c.Src)
		}
	}
}

func (vc *FuncVC) collectModel(name string, v Val) {
	switch x := v.(type) {
	case *FV:
		ls := vc.enc.Leaves(x.T)
		for i, t := range x.L {
			n := name
			if len(x.L) > 1 {
				n += "." + ls[i].Name
			}
			vc.modelVars = append(vc.modelVars, modelVar{n, t.S})
		}
	case *SV:
		su := x.T.Underlying().(*types.Struct)
		for i, f := range x.F {
			vc.collectModel(name+"."+su.Field(i).Name(), f)
		}
	}
}

// frameObligations: every heap location that existed at entry and is not
// covered by the modifies clause is unchanged.
type modSet struct {
	all  bool
	refs []Term
}

// computeMods evaluates the modifies clause in the entry state: heap key -> permitted references.
func (fr *Frame) computeMods() map[string]*modSet {
	vc := fr.vc
	enc := vc.enc
	fc := fr.fc
	mods := map[string]*modSet{}
	add := func(key string, ref Term) {
		m := mods[key]
		if m == nil {
			m = &modSet{}
			mods[key] = m
		}
		m.refs = append(m.refs, ref)
	}
	env := fr.specEnv(fr.entry, "modifies")
	fr.bindParams(env)
	env.locals = nil
	var addObj func(t types.Type, ref Term)
	var addField func(stT types.Type, i int, ref Term)
	addField = func(stT types.Type, i int, ref Term) {
		su := stT.Underlying().(*types.Struct)
		ft := su.Field(i).Type()
		if isAggregate(ft) {
			addObj(ft, vc.subRef(stT, i, ref))
			return
		}
		for _, l := range enc.Leaves(ft) {
			add(vc.fieldKey(stT, i, l.Name), ref)
		}
	}
	addObj = func(t types.Type, ref Term) {
		switch u := t.Underlying().(type) {
		case *types.Struct:
			for i := 0; i < u.NumFields(); i++ {
				addField(t, i, ref)
			}
		case *types.Array:
			for _, l := range enc.Leaves(u.Elem()) {
				add(vc.memKey(u.Elem(), l.Name), ref)
			}
		default:
			for _, l := range enc.Leaves(t) {
				add(vc.cellKey(t, l.Name), ref)
			}
		}
	}
	for _, m := range fc.Modifies {
		e := m.Expr
		switch x := e.(type) {
		case *astCall:
			if id, ok := x.Fun.(*astIdent); ok && id.Name == "mem" {
				mv := env.tr(x).(*MemV)
				for _, l := range enc.Leaves(mv.Elem) {
					add(vc.memKey(mv.Elem, l.Name), mv.Base)
				}
				continue
			}
			if id, ok := x.Fun.(*astIdent); ok {
				if sf, ok := env.lookupSpec(id.Name); ok && sf.Heap {
					p := env.tr(x.Args[0]).(*FV)
					add("H|ghost|"+sf.Name+"|v", p.L[0])
					continue
				}
			}
			vc.unsupportedf("unsupported modifies clause %s", exprString(e))
		case *astSelector:
			base := env.tr(x.X).(*FV)
			pt := base.T.Underlying().(*types.Pointer)
			su := pt.Elem().Underlying().(*types.Struct)
			i := findField(su, x.Sel.Name)
			if i < 0 {
				vc.unsupportedf("modifies %s: no such field", exprString(e))
			}
			addField(pt.Elem(), i, base.L[0])
		case *astStar:
			p := env.tr(x.X).(*FV)
			addObj(p.T.Underlying().(*types.Pointer).Elem(), p.L[0])
		case *astIdent:
			if env.pkg != nil {
				if obj, ok := env.pkg.Scope().Lookup(x.Name).(*types.Var); ok {
					for _, l := range enc.Leaves(obj.Type()) {
						mods["G|"+env.pkg.Name()+"."+x.Name+"|"+l.Name] = &modSet{all: true}
					}
					continue
				}
			}
			vc.unsupportedf("unsupported modifies clause %s", exprString(e))
		default:
			vc.unsupportedf("unsupported modifies clause %s", exprString(e))
		}
	}
	return mods
}

func (fr *Frame) frameObligations(final *State, reach Term) {
	vc := fr.vc
	fc := fr.fc
	mods := vc.mods
	if mods == nil {
		mods = fr.computeMods()
	}
	var keys []string
	for k := range final.Heap {
		keys = append(keys, k)
	}
	sort.Strings(keys)
	for _, k := range keys {
		fin := final.Heap[k]
		ent := vc.heapGet(fr.entry, k, vc.entrySorts[k])
		if fin.S == ent.S {
			continue
		}
		m := mods[k]
		if m != nil && m.all {
			continue
		}
		short := strings.ReplaceAll(strings.TrimSuffix(k, "|v"), "|", ".")
		if !fin.Sort.IsArr() {
			fr.obligeNamed("frame."+short, "frame", reach, mkEq(fin, ent), "global "+k+" unchanged", fc.Line)
			continue
		}
		r := vc.sc.Decl("frame_r", SInt)
		conds := []Term{app(SBool, "<", app(SInt, "refroot", r), fr.entry.Alloc), app(SBool, ">", r, intLit64(0))} // ref 0 is nil: not a location (mem of a nil slice denotes nothing)
		if m != nil {
			for _, ref := range m.refs {
				conds = append(conds, mkNot(mkEq(r, ref)))
			}
		}
		fr.obligeNamed("frame."+short, "frame", mkAnd(append([]Term{reach}, conds...)...), mkEq(mkSelect(fin, r), mkSelect(ent, r)),
			"locations of "+k+" outside the modifies clause are unchanged", fc.Line)
	}
}


// assumeParamLemma assumes a parameterised lemma as its universal closure over
// the parameters and over every heap component it reads (the lemma's own proof
// is for an arbitrary heap).
func (vc *FuncVC) assumeParamLemma(name string, lf *FuncContract) {
	vc.assumeParamLemmaAt(name, lf, true)
}

// assumeParamLemmaAt: persistent = for the whole function; otherwise from the
// current script position on ("loop k uses").
func (vc *FuncVC) assumeParamLemmaAt(name string, lf *FuncContract, persistent bool) {
	enc := vc.enc
	sym := &State{Locals: map[*ssa.Alloc]Val{}, Heap: map[string]Term{}, Alloc: Term{"alloc?", SInt}, Sym: &symHeap{terms: map[string]Term{}}}
	env := &SpecEnv{vc: vc, cf: vc.cf, pkg: vc.cf.PkgTypes, vars: map[string]Val{}, oldVars: map[string]Val{}, cur: sym, old: sym, allocOld: sym.Alloc, where: "lemma " + name}
	var binders []string
	for i, p := range lf.Params {
		pt := env.lookupType(p.Type)
		if pt == nil {
			panic(specErr{"lemma " + name + ": unknown parameter type"})
		}
		fv := &FV{T: pt}
		if isMath(pt) {
			fv.L = []Term{{fmt.Sprintf("q?%d_0", i), enc.scalarSort(pt)}}
		} else {
			for j, l := range enc.Leaves(pt) {
				fv.L = append(fv.L, Term{fmt.Sprintf("q?%d_%d", i, j), l.Sort})
			}
		}
		for _, t := range fv.L {
			binders = append(binders, fmt.Sprintf("(%s %s)", t.S, t.Sort))
		}
		env.vars[p.Name] = fv
	}
	var hyp, concl []Term
	for i, p := range lf.Params {
		_ = i
		hyp = append(hyp, vc.wellTyped(env.vars[p.Name], sym))
	}
	for _, c := range lf.Requires {
		hyp = append(hyp, env.Bool(c.Expr))
	}
	for _, c := range lf.Ensures {
		concl = append(concl, env.Bool(c.Expr))
	}
	body := mkImplies(mkAnd(hyp...), mkAnd(concl...))
	var rewrites [][2]string
	for j, k := range sym.Sym.keys {
		t := sym.Sym.terms[k]
		// footprint reduction (as for ospec applications): a component read only
		// at the backing object of one slice parameter is quantified as that
		// object's element array; solvers give up early on quantifiers over
		// arrays of arrays
		name, srt := t.S, t.Sort
		if x, ok := selectTemplate(body.S, t, "q?"); ok {
			_, el := t.Sort.ArrParts()
			name, srt = fmt.Sprintf("m?%d", j), el
			body.S = strings.ReplaceAll(body.S, fmt.Sprintf("(select %s %s)", t.S, x), name)
			rewrites = append(rewrites, [2]string{fmt.Sprintf("(select %s %s)", t.S, x), name})
		}
		if srt.IsArr() && vc.boxed() {
			// quantify over an Int handle instead of an array-sorted variable
			box, unbox := vc.boxFns(srt)
			id := fmt.Sprintf("id?%d", j)
			ub := Term{"(" + unbox + " " + id + ")", srt}
			body.S = replaceToken(body.S, name, ub.S)
			body.S = strings.ReplaceAll(body.S, "("+box+" "+ub.S+")", id)
			rewrites = append(rewrites, [2]string{" " + name + " ", " " + ub.S + " "}, [2]string{" " + name + ")", " " + ub.S + ")"}, [2]string{"(" + box + " " + ub.S + ")", id})
			binders = append(binders, fmt.Sprintf("(%s Int)", id))
			// the lemma was proved for well-typed memory only
			if tp := vc.typedPred(k, srt); tp != "" {
				body = mkImplies(Term{"(" + tp + " " + id + ")", SBool}, body)
			}
			continue
		}
		binders = append(binders, fmt.Sprintf("(%s %s)", name, srt))
		body = mkImplies(vc.arrayTyped(k, Term{name, srt}), body)
	}
	// explicit triggers
	if len(lf.Triggers) > 0 {
		var pats []string
		for _, tr := range lf.Triggers {
			var ts []string
			for _, c := range tr {
				v := env.tr(c.Expr)
				fv, ok := v.(*FV)
				if !ok || len(fv.L) != 1 {
					panic(specErr{"lemma " + name + ": a trigger must be a scalar term"})
				}
				ts = append(ts, fv.L[0].S)
			}
			pats = append(pats, ":pattern ("+strings.Join(ts, " ")+")")
		}
		patText := strings.Join(pats, " ")
		// the same rewriting as the body: reduced heap reads and handles
		for _, rw := range rewrites {
			patText = strings.ReplaceAll(patText, rw[0], rw[1])
		}
		assume := vc.sc.AssumeP
		if !persistent {
			assume = vc.sc.Assume
		}
		assume(Term{fmt.Sprintf("(forall (%s) (! %s %s))", strings.Join(binders, " "), body.S, patText), SBool}, "lemma "+name+" (proved separately)")
		return
	}
	// trigger: the opaque applications of the lemma, if they mention every bound variable
	var apps []string
	seenApp := map[string]bool{}
	for i := 0; i < len(body.S); i++ {
		if strings.HasPrefix(body.S[i:], "(spec_") {
			d := 0
			for e := i; e < len(body.S); e++ {
				if body.S[e] == '(' {
					d++
				} else if body.S[e] == ')' {
					d--
					if d == 0 {
						a := body.S[i : e+1]
						if !seenApp[a] {
							seenApp[a] = true
							apps = append(apps, a)
						}
						break
					}
				}
			}
		}
	}
	covered := len(apps) > 0
	for _, b := range binders {
		name := strings.Fields(strings.TrimPrefix(b, "("))[0]
		if !containsToken(strings.Join(apps, " "), name) {
			covered = false
		}
	}
	assume := vc.sc.AssumeP
	if !persistent {
		assume = vc.sc.Assume
	}
	if covered {
		assume(Term{fmt.Sprintf("(forall (%s) (! %s :pattern (%s)))", strings.Join(binders, " "), body.S, strings.Join(apps, " ")), SBool}, "lemma "+name+" (proved separately)")
		return
	}
	assume(Term{fmt.Sprintf("(forall (%s) %s)", strings.Join(binders, " "), body.S), SBool}, "lemma "+name+" (proved separately)")
}
