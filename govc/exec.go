package main

import (
	"fmt"
	"go/token"
	"go/types"
	"sort"
	"strings"

	"golang.org/x/tools/go/ssa"
)

type outEdge struct {
	to    *ssa.BasicBlock
	reach Term
	st    *State
}

type provInfo struct {
	kind   int // 0 store, 1 ite
	parent string
	other  string
	ref    Term
}

type loopW struct {
	locals   map[*ssa.Alloc]bool
	heapFresh map[string]bool // written only at objects allocated inside the loop
	heapRoots map[string]map[string]Term // written at sub-objects of these (loop-invariant) root objects
	heapAll  map[string]bool
	heapRefs map[string]map[string]Term
}

type snapshot struct {
	items    int
	obls     int
	counters map[string]int
	notes    int
	rets     int
	calls    map[string]int
}

type loopRun struct {
	li        *loopInfo
	spec      *LoopSpec
	W         loopW
	snap      snapshot
	headState *State
	headReach Term
	headPos   int
	variants  []Val
	rounds    int
	curBack   int // ordinal of the back edge being checked (in processing order)
}

func (vc *FuncVC) newFrame(fn *ssa.Function, fc *FuncContract, cf *ContractFile, prefix string, depth int) *Frame {
	fr := &Frame{vc: vc, fn: fn, fc: fc, cf: cf, vals: map[ssa.Value]Val{}, prefix: prefix, calls: map[string]int{}, depth: depth}
	fr.escapes = map[*ssa.Alloc]bool{}
	// call-site ordinals: k-th call of a callee in source order
	type cs struct {
		in  ssa.Instruction
		pos token.Pos
		idx int
	}
	byName := map[string][]cs{}
	n := 0
	for _, b := range fn.Blocks {
		for _, in := range b.Instrs {
			if c, ok := in.(ssa.CallInstruction); ok {
				name := calleeShortName(c.Common())
				if name != "" {
					byName[name] = append(byName[name], cs{in, in.Pos(), n})
					n++
				}
			}
		}
	}
	fr.callOrd = map[ssa.Instruction]int{}
	for _, l := range byName {
		sort.SliceStable(l, func(i, j int) bool {
			if l[i].pos != l[j].pos {
				return l[i].pos < l[j].pos
			}
			return l[i].idx < l[j].idx
		})
		for i, c := range l {
			fr.callOrd[c.in] = i + 1
		}
	}
	var onlyAccess func(v ssa.Value, self ssa.Value) bool
	onlyAccess = func(v ssa.Value, self ssa.Value) bool {
		for _, r := range *v.Referrers() {
			switch u := r.(type) {
			case *ssa.UnOp:
				if u.Op != token.MUL {
					return false
				}
			case *ssa.Store:
				if u.Val == v {
					return false
				}
			case *ssa.DebugRef:
			case *ssa.FieldAddr:
				if u.X != v || !onlyAccess(u, self) {
					return false
				}
			case *ssa.IndexAddr:
				if u.X != v || !onlyAccess(u, self) {
					return false
				}
			default:
				return false
			}
		}
		return true
	}
	for _, b := range fn.Blocks {
		for _, in := range b.Instrs {
			a, ok := in.(*ssa.Alloc)
			if !ok {
				continue
			}
			elem := a.Type().(*types.Pointer).Elem()
			if a.Heap || !onlyAccess(a, a) || (isAggregate(elem) && vc.enc.zeroVal(elem) == nil) {
				fr.escapes[a] = true
			}
		}
	}
	return fr
}

func (fr *Frame) takeSnapshot(rets int) snapshot {
	vc := fr.vc
	s := snapshot{items: len(vc.sc.Items), obls: len(vc.obls), notes: len(vc.notes), rets: rets,
		counters: map[string]int{}, calls: map[string]int{}}
	for k, v := range vc.counters {
		s.counters[k] = v
	}
	for k, v := range fr.calls {
		s.calls[k] = v
	}
	return s
}

func (fr *Frame) restore(s snapshot) {
	vc := fr.vc
	vc.sc.Items = vc.sc.Items[:s.items]
	vc.obls = vc.obls[:s.obls]
	vc.notes = vc.notes[:s.notes]
	vc.counters = map[string]int{}
	for k, v := range s.counters {
		vc.counters[k] = v
	}
	fr.calls = map[string]int{}
	for k, v := range s.calls {
		fr.calls[k] = v
	}
}

// localsByName maps source-level names to their allocs (last declaration wins
// for shadowed names; names are disambiguated as name#k for the k-th one).
func (fr *Frame) localsByName(pos token.Pos) map[string]*ssa.Alloc {
	m := map[string]*ssa.Alloc{}
	count := map[string]int{}
	var allocs []*ssa.Alloc
	for _, b := range fr.fn.Blocks {
		for _, in := range b.Instrs {
			if a, ok := in.(*ssa.Alloc); ok && a.Comment != "" {
				allocs = append(allocs, a)
			}
		}
	}
	sort.SliceStable(allocs, func(i, j int) bool { return allocs[i].Pos() < allocs[j].Pos() })
	for _, a := range allocs {
		count[a.Comment]++
		m[fmt.Sprintf("%s_%d", a.Comment, count[a.Comment])] = a
		// the nearest declaration at or before pos wins; without a position the first one
		cur, have := m[a.Comment]
		switch {
		case !have:
			m[a.Comment] = a
		case pos.IsValid() && a.Pos() <= pos && a.Pos() >= cur.Pos():
			m[a.Comment] = a
		}
	}
	return m
}

func (fr *Frame) specEnv(cur *State, where string) *SpecEnv {
	return fr.specEnvAt(cur, where, token.NoPos)
}

func (fr *Frame) specEnvAt(cur *State, where string, pos token.Pos) *SpecEnv {
	vc := fr.vc
	env := &SpecEnv{vc: vc, fn: fr.fn, cf: fr.cf, vars: map[string]Val{}, cur: cur, old: fr.entry, oldVars: map[string]Val{}, where: where}
	if fr.fn.Pkg != nil {
		env.pkg = fr.fn.Pkg.Pkg
	} else if fr.fn.Parent() != nil && fr.fn.Parent().Pkg != nil {
		env.pkg = fr.fn.Parent().Pkg.Pkg
	}
	env.locals = fr.localsByName(pos)
	env.guard = fr.curReach
	env.loopHeads = fr.loopHeads
	env.loopEntries = fr.loopEntries
	for i, p := range fr.fn.Params {
		env.oldVars[p.Name()] = fr.params[i]
	}
	if fr.entry != nil {
		env.allocOld = fr.entry.Alloc
	}
	return env
}

func (fr *Frame) run(st0 *State, reach0 Term) []retPoint {
	vc := fr.vc
	fn := fr.fn
	if len(fn.Blocks) == 0 {
		vc.unsupportedf("function %s has no body", fn)
	}
	order := rpo(fn)
	index := map[*ssa.BasicBlock]int{}
	for i, b := range order {
		index[b] = i
	}
	loops := findLoops(fn)
	runs := map[*ssa.BasicBlock]*loopRun{}
	outs := map[*ssa.BasicBlock][]outEdge{}
	var rets []retPoint

	for i := 0; i < len(order); i++ {
		b := order[i]
		li := loops[b]
		var lr *loopRun
		if li != nil {
			lr = runs[b]
			if lr == nil {
				lr = &loopRun{li: li, W: loopW{locals: map[*ssa.Alloc]bool{}, heapAll: map[string]bool{}, heapFresh: map[string]bool{}, heapRoots: map[string]map[string]Term{}, heapRefs: map[string]map[string]Term{}}}
				if fr.fc != nil {
					lr.spec = fr.fc.Loops[li.ord]
				}
				runs[b] = lr
			}
			lr.snap = fr.takeSnapshot(len(rets))
			lr.curBack = 0
		}
		var ins []inEdge
		if b == fn.Blocks[0] {
			ins = append(ins, inEdge{reach0, st0})
		}
		seen := map[*ssa.BasicBlock]bool{}
		for _, p := range b.Preds {
			if seen[p] {
				continue
			}
			seen[p] = true
			if isBackEdge(p, b) {
				continue
			}
			for _, oe := range outs[p] {
				if oe.to == b && !oe.reach.IsFalse() {
					ins = append(ins, inEdge{oe.reach, oe.st})
				}
			}
		}
		outs[b] = nil
		st, reach := vc.mergeStates(ins)
		if st == nil {
			continue
		}
		fr.curReach = reach
		if lr != nil {
			st = fr.enterLoop(lr, st, reach)
		}
		// instructions
		restart := -1
		for _, in := range b.Instrs {
			fr.curInstr = in
			switch x := in.(type) {
			case *ssa.Phi:
				fr.phi(x, b, outs, lr != nil)
			case *ssa.If:
				c := fr.val(x.Cond, st).(*FV).Term()
				c = vc.sc.Def("cond", c)
				outs[b] = append(outs[b],
					outEdge{b.Succs[0], vc.sc.Def("edge", mkAnd(reach, c)), st},
					outEdge{b.Succs[1], vc.sc.Def("edge", mkAnd(reach, mkNot(c))), st})
			case *ssa.Jump:
				outs[b] = append(outs[b], outEdge{b.Succs[0], reach, st})
			case *ssa.Return:
				var rs []Val
				for _, r := range x.Results {
					rs = append(rs, fr.val(r, st))
				}
				if fr.top && fr.fc != nil && len(fr.fc.RetAssert) > 0 {
					// assert@ret: a condition over the locals at every return point
					ord := returnOrdinal(fr.fn, x)
					env := fr.specEnvAt(st, fmt.Sprintf("assert@ret (return %d)", ord), x.Pos())
					for i, r := range rs {
						env.vars[fmt.Sprintf("result%d", i)] = r
						if i == 0 {
							env.vars["result"] = r
						}
					}
					for j, c := range fr.fc.RetAssert {
						if k := fr.fc.RetAssertK[j]; k == -1 {
							if ord != countReturns(fr.fn) {
								continue
							}
						} else if k != 0 && k != ord {
							continue
						}
						fr.obligeParts(fmt.Sprintf("ret%d.assert%s.%d", ord, labelSuffix(c), j+1), "ret-assert", reach, env, c)
					}
				}
				rets = append(rets, retPoint{reach, rs, st})
			case *ssa.Panic:
				fr.panicInstr(x, st, reach)
			default:
				fr.exec(in, st, reach)
			}
		}
		// back edges out of this block
		for _, oe := range outs[b] {
			if h := oe.to; isBackEdge(b, h) {
				hl := runs[h]
				if hl == nil {
					vc.unsupportedf("irreducible control flow in %s", fn)
				}
				hl.curBack++
				fr.curReach = oe.reach
				if fr.backEdge(hl, oe.st, oe.reach) {
					restart = index[h]
					break
				}
			}
		}
		if restart >= 0 {
			hl := runs[order[restart]]
			hl.rounds++
			if hl.rounds > 12 {
				vc.unsupportedf("loop modification analysis did not converge in %s", fn)
			}
			fr.restore(hl.snap)
			rets = rets[:hl.snap.rets]
			for j := restart; j < len(order); j++ {
				delete(outs, order[j])
			}
			i = restart - 1
			continue
		}
	}
	return rets
}

func (fr *Frame) phi(x *ssa.Phi, b *ssa.BasicBlock, outs map[*ssa.BasicBlock][]outEdge, header bool) {
	vc := fr.vc
	if header {
		// values flowing round a back edge: arbitrary
		st := &State{Alloc: intLit64(1 << 40)}
		fr.vals[x] = vc.freshVal("phi", x.Type(), st)
		return
	}
	var acc Val
	for i := len(b.Preds) - 1; i >= 0; i-- {
		p := b.Preds[i]
		var rs []Term
		var pst *State
		for _, oe := range outs[p] {
			if oe.to == b {
				rs = append(rs, oe.reach)
				pst = oe.st
			}
		}
		if len(rs) == 0 || mkOr(rs...).IsFalse() {
			continue
		}
		v := fr.val(x.Edges[i], pst)
		if acc == nil {
			acc = v
		} else {
			acc = vc.mergeVal(mkOr(rs...), v, acc, "phi")
		}
	}
	if acc == nil {
		acc = vc.enc.zeroVal(x.Type())
	}
	fr.vals[x] = acc
}

func (fr *Frame) panicInstr(x *ssa.Panic, st *State, reach Term) {
	vc := fr.vc
	cond := tFalse
	if fr.fc != nil && len(fr.fc.MayPanic) > 0 && fr.top {
		env := fr.specEnv(fr.entry, "may_panic")
		for i, p := range fr.fn.Params {
			env.vars[p.Name()] = fr.params[i]
		}
		env.locals = nil
		var cs []Term
		for _, c := range fr.fc.MayPanic {
			cs = append(cs, env.Bool(c.Expr))
		}
		cond = mkOr(cs...)
	}
	_ = vc
	fr.oblige("panic", reach, cond, "explicit panic must be unreachable")
}

// ---------- loops ----------

func (vc *FuncVC) identsAvailable(t Term, pos int) bool {
	s := t.S
	i := 0
	for i < len(s) {
		c := s[i]
		if c == '(' || c == ')' || c == ' ' {
			i++
			continue
		}
		j := i
		for j < len(s) && s[j] != '(' && s[j] != ')' && s[j] != ' ' {
			j++
		}
		tok := s[i:j]
		i = j
		if strings.Contains(tok, "!") {
			if vc.sc.persistent[tok] {
				continue
			}
			p, ok := vc.sc.defPos[tok]
			if !ok || p >= pos {
				return false
			}
		}
	}
	return true
}

// writesOf walks the store provenance from `from` back to `to`.
func (vc *FuncVC) writesOf(from, to string, refs *[]Term, depth int) bool {
	cur := from
	for steps := 0; steps < 10000; steps++ {
		if cur == to {
			return true
		}
		p, ok := vc.prov[cur]
		if !ok {
			return false
		}
		if p.kind == 0 {
			*refs = append(*refs, p.ref)
			cur = p.parent
			continue
		}
		if depth > 20 {
			return false
		}
		return vc.writesOf(p.parent, to, refs, depth+1) && vc.writesOf(p.other, to, refs, depth+1)
	}
	return false
}

func (fr *Frame) enterLoop(lr *loopRun, stIn *State, reach Term) *State {
	vc := fr.vc
	ord := lr.li.ord
	if fr.loopEntries == nil {
		fr.loopEntries = map[int]*State{}
	}
	fr.loopEntries[ord] = stIn.clone()
	// invariant on entry
	if lr.spec != nil {
		env := fr.specEnvAt(stIn, fmt.Sprintf("loop %d invariant", ord), lr.li.minPos)
		for j, c := range lr.spec.Invariants {
			fr.obligeParts(fmt.Sprintf("loop%d.inv%d.entry", ord, j+1), "loop-inv-entry", reach, env, c)
		}
	}
	if lr.spec != nil && lr.spec.Cut && fr.top {
		// "loop k cutcontext": what the body assumed so far is forgotten; the
		// invariants (and the frame facts stated below) carry what is needed
		vc.sc.Forget(vc.bodyStart)
		vc.sc.Assume(app(SBool, ">=", stIn.Alloc, vc.entryState.Alloc), "allocation counter only grows")
	}
	if lr.spec != nil && fr.top {
		for _, u := range lr.spec.Uses {
			lf := fr.cf.Funcs["lemma:"+u]
			if lf == nil || len(lf.Params) == 0 {
				panic(specErr{fmt.Sprintf("loop %d uses %s: no such parameterised lemma", ord, u)})
			}
			vc.assumeParamLemmaAt(u, lf, false)
		}
	}
	lr.headPos = vc.sc.Pos()
	st := stIn.clone()
	// havoc
	var las []*ssa.Alloc
	for a := range lr.W.locals {
		las = append(las, a)
	}
	sort.Slice(las, func(i, j int) bool { return las[i].Pos() < las[j].Pos() })
	st.Alloc = vc.sc.Decl("alloc", SInt)
	vc.sc.Assume(app(SBool, ">=", st.Alloc, stIn.Alloc), "allocation counter only grows")
	for _, a := range las {
		if old, ok := st.Locals[a]; ok {
			st.Locals[a] = vc.freshVal(a.Comment, old.valType(), st)
		}
	}
	var keys []string
	seenKey := map[string]bool{}
	for k := range lr.W.heapAll {
		if !seenKey[k] {
			seenKey[k] = true
			keys = append(keys, k)
		}
	}
	for k := range lr.W.heapRefs {
		if !seenKey[k] {
			seenKey[k] = true
			keys = append(keys, k)
		}
	}
	for k := range lr.W.heapFresh {
		if !seenKey[k] {
			seenKey[k] = true
			keys = append(keys, k)
		}
	}
	for k := range lr.W.heapRoots {
		if !seenKey[k] {
			seenKey[k] = true
			keys = append(keys, k)
		}
	}
	sort.Strings(keys)
	for _, k := range keys {
		sortK := vc.entrySorts[k]
		cur := vc.heapGet(st, k, sortK)
		if lr.W.heapAll[k] || !sortK.IsArr() {
			nh := vc.declHeap(k, sortK)
			if vc.mods != nil && sortK.IsArr() && !strings.HasPrefix(k, "G|") {
				// every write in this function is checked against the modifies clause,
				// so locations outside it keep their contents across the loop
				vc.sc.Assume(vc.frameAssume(k, nh, cur), "loop: locations of "+k+" outside the modifies clause are unchanged (all writes are checked)")
			}
			vc.heapSet(st, k, nh)
			continue
		}
		if lr.W.heapFresh[k] || len(lr.W.heapRoots[k]) > 0 {
			// objects allocated by earlier iterations, and sub-objects of the listed
			// root objects, may have been written: everything else that existed
			// before the loop keeps its value
			base := vc.declHeap(k, sortK)
			name := fmt.Sprintf("r?%d", vc.sc.n)
			vc.sc.n++
			rv := Term{name, SInt}
			conds := []Term{app(SBool, "<", app(SInt, "refroot", rv), stIn.Alloc)}
			var rootNames []string
			for rn := range lr.W.heapRoots[k] {
				rootNames = append(rootNames, rn)
			}
			sort.Strings(rootNames)
			for _, rn := range rootNames {
				conds = append(conds, mkNot(mkEq(app(SInt, "refroot", rv), app(SInt, "refroot", lr.W.heapRoots[k][rn]))))
			}
			body := mkImplies(mkAnd(conds...), mkEq(mkSelect(base, rv), mkSelect(cur, rv)))
			vc.sc.Assume(Term{fmt.Sprintf("(forall ((%s Int)) (! %s :pattern ((select %s %s))))", name, body.S, base.S, name), SBool}, "loop writes "+k+" only at objects it allocates (and at the listed references)")
			cur = base
		}
		var rs []string
		for r := range lr.W.heapRefs[k] {
			rs = append(rs, r)
		}
		sort.Strings(rs)
		_, el := sortK.ArrParts()
		for _, r := range rs {
			ref := lr.W.heapRefs[k][r]
			nv := vc.sc.Def(k, mkStore(cur, ref, vc.declHeap(k+"@", el)))
			vc.prov[nv.S] = provInfo{kind: 0, parent: cur.S, ref: ref}
			cur = nv
		}
		vc.heapSet(st, k, cur)
	}
	if lr.spec != nil {
		env := fr.specEnvAt(st, fmt.Sprintf("loop %d invariant", ord), lr.li.minPos)
		for _, c := range lr.spec.Invariants {
			vc.sc.Assume(mkImplies(reach, env.Bool(c.Expr)), fmt.Sprintf("loop %d invariant: %s", ord, c.Src))
		}
		lr.variants = nil
		for _, c := range lr.spec.Decreases {
			v := env.defaultConst(env.tr(c.Expr))
			fv := v.(*FV)
			lr.variants = append(lr.variants, scalar(fv.T, vc.sc.Def("variant", fv.L[0])))
		}
	}
	lr.headState = st.clone()
	lr.headReach = reach
	if fr.loopHeads == nil {
		fr.loopHeads = map[int]*State{}
	}
	fr.loopHeads[ord] = lr.headState
	return st
}

// backEdge checks a back edge; returns true when the modified set grew and the
// loop must be re-run.
func (fr *Frame) backEdge(lr *loopRun, st *State, reach Term) bool {
	vc := fr.vc
	grew := false
	head := lr.headState
	for a, v := range st.Locals {
		hv, ok := head.Locals[a]
		if !ok {
			// allocated inside the loop; re-initialised on each iteration
			continue
		}
		if !sameVal(hv, v) && !lr.W.locals[a] {
			lr.W.locals[a] = true
			grew = true
		}
	}
	for k, t := range st.Heap {
		ht := vc.heapGet(head, k, vc.entrySorts[k])
		if ht.S == t.S {
			continue
		}
		if lr.W.heapAll[k] {
			continue
		}
		var refs []Term
		ok := vc.writesOf(t.S, ht.S, &refs, 0)
		if ok {
			var keep []Term
			for _, r := range refs {
				if vc.identsAvailable(r, lr.headPos) {
					keep = append(keep, r)
					continue
				}
				if pos, isFresh := vc.freshRefs[r.S]; isFresh && pos >= lr.headPos {
					// allocated inside the loop
					if !lr.W.heapFresh[k] {
						lr.W.heapFresh[k] = true
						grew = true
					}
					continue
				}
				// a sub-object (element, embedded struct) of a loop-invariant root object,
				// selected by a loop-variant index
				if root := rootTerm(r); root.S != r.S && vc.identsAvailable(root, lr.headPos) {
					m := lr.W.heapRoots[k]
					if m == nil {
						m = map[string]Term{}
						lr.W.heapRoots[k] = m
					}
					if _, have := m[root.S]; !have {
						m[root.S] = root
						grew = true
					}
					continue
				}
				ok = false
				break
			}
			refs = keep
		}
		if !ok {
			lr.W.heapAll[k] = true
			grew = true
			continue
		}
		m := lr.W.heapRefs[k]
		if m == nil {
			m = map[string]Term{}
			lr.W.heapRefs[k] = m
		}
		for _, r := range refs {
			if _, have := m[r.S]; !have {
				m[r.S] = r
				grew = true
			}
		}
	}
	if grew {
		return true
	}
	ord := lr.li.ord
	if lr.spec != nil {
		env := fr.specEnvAt(st, fmt.Sprintf("loop %d invariant", ord), lr.li.minPos)
		for j, c := range lr.spec.Invariants {
			fr.obligeParts(fmt.Sprintf("loop%d.inv%d.preserved%s", ord, j+1, lr.backSuffix()), "loop-inv-preserved", reach, env, c)
		}
		if len(lr.spec.Decreases) > 0 {
			enc := vc.enc
			var alts []Term
			var eqs []Term
			for j, c := range lr.spec.Decreases {
				nv := env.defaultConst(env.tr(c.Expr)).(*FV)
				ov := lr.variants[j].(*FV)
				_, signed, _ := intInfo(ov.T)
				if isMath(ov.T) {
					signed = true
				}
				zero := enc.zeroTerm(ov.L[0].Sort)
				dec := mkAnd(enc.lt(nv.L[0], ov.L[0], signed), enc.le(zero, ov.L[0], signed))
				alts = append(alts, mkAnd(append(append([]Term{}, eqs...), dec)...))
				eqs = append(eqs, mkEq(nv.L[0], ov.L[0]))
			}
			fr.obligeNamed(fmt.Sprintf("loop%d.decreases%s", ord, lr.backSuffix()), "loop-decreases", reach, mkOr(alts...), "variant decreases and is bounded below", lr.spec.Decreases[0].Line)
		}
	}
	return false
}

// ---------- instructions ----------

func (fr *Frame) exec(in ssa.Instruction, st *State, reach Term) {
	vc := fr.vc
	enc := vc.enc
	switch x := in.(type) {
	case *ssa.DebugRef, *ssa.RunDefers:
		return
	case *ssa.Alloc:
		elem := x.Type().(*types.Pointer).Elem()
		if !fr.escapes[x] {
			st.Locals[x] = enc.zeroVal(elem)
			fr.vals[x] = &LV{T: x.Type(), Kind: LLocal, ElemT: elem, Alloc: x}
			return
		}
		r := vc.newRef(st, "obj_"+x.Comment)
		vc.assumeZeroObj(st, r, elem)
		fr.vals[x] = scalar(x.Type(), r)
	case *ssa.Store:
		fr.store(x, st, reach)
	case *ssa.UnOp:
		fr.unop(x, st, reach)
	case *ssa.BinOp:
		fr.binop(x, st, reach)
	case *ssa.FieldAddr:
		if lv, ok := fr.val(x.X, st).(*LV); ok && lv.Kind == LLocal {
			stT := x.X.Type().Underlying().(*types.Pointer).Elem()
			ft := stT.Underlying().(*types.Struct).Field(x.Field).Type()
			np := append(append([]pathElem{}, lv.Path...), pathElem{field: x.Field})
			fr.vals[x] = &LV{T: x.Type(), Kind: LLocal, ElemT: ft, Alloc: lv.Alloc, Path: np}
			return
		}
		p := fr.val(x.X, st).(*FV)
		fr.nilCheck(p.L[0], reach, "field access through nil pointer")
		stT := x.X.Type().Underlying().(*types.Pointer).Elem()
		su := stT.Underlying().(*types.Struct)
		ft := su.Field(x.Field).Type()
		if isAggregate(ft) {
			fr.vals[x] = scalar(x.Type(), vc.subRef(stT, x.Field, p.L[0]))
		} else {
			fr.vals[x] = &LV{T: x.Type(), Kind: LField, Key: typeKey(stT) + "|" + su.Field(x.Field).Name(), Ref: p.L[0], ElemT: ft}
		}
	case *ssa.Field:
		sv, ok := fr.val(x.X, st).(*SV)
		if !ok {
			vc.unsupportedf("field of non-struct value")
		}
		fr.vals[x] = sv.F[x.Field]
	case *ssa.IndexAddr:
		fr.indexAddr(x, st, reach)
	case *ssa.Index:
		fr.indexVal(x, st, reach)
	case *ssa.Slice:
		fr.sliceInstr(x, st, reach)
	case *ssa.Convert:
		fr.convert(x, st, reach)
	case *ssa.ChangeType:
		v := fr.val(x.X, st)
		fr.vals[x] = retype(v, x.Type())
	case *ssa.MakeInterface:
		v := fr.val(x.X, st)
		tid := vc.typeID(x.X.Type())
		var pv Term
		if fv, ok := v.(*FV); ok && len(fv.L) == 1 && fv.L[0].Sort == SInt {
			pv = fv.L[0]
		} else {
			pv = vc.sc.Decl("box", SInt)
			vc.sc.Assume(app(SBool, ">", pv, intLit64(0)), "boxed value")
		}
		fr.vals[x] = &FV{T: x.Type(), L: []Term{tid, pv}}
	case *ssa.ChangeInterface:
		v := fr.val(x.X, st).(*FV)
		fr.vals[x] = &FV{T: x.Type(), L: v.L}
	case *ssa.TypeAssert:
		fr.typeAssert(x, st, reach)
	case *ssa.Extract:
		tv, ok := fr.val(x.Tuple, st).(*TV)
		if !ok {
			vc.unsupportedf("extract from non-tuple")
		}
		fr.vals[x] = tv.E[x.Index]
	case *ssa.Call:
		r := fr.call(&x.Call, x, st, reach)
		if r != nil {
			fr.vals[x] = r
		}
	case *ssa.MakeSlice:
		ln := enc.toIdx(fr.val(x.Len, st).(*FV).Term(), x.Len.Type())
		cp := enc.toIdx(fr.val(x.Cap, st).(*FV).Term(), x.Cap.Type())
		fr.oblige("makeslice", reach, mkAnd(enc.idxLe(enc.idxLit(0), ln), enc.idxLe(ln, cp)), "make: 0 <= len <= cap")
		// runtime.makeslice panics ("len/cap out of range") when cap*elemsize exceeds maxAlloc
		fr.oblige("makeslice", reach, enc.idxLe(cp, enc.idxLit(maxAllocElems(x.Type().Underlying().(*types.Slice).Elem()))), "make: cap * element size <= 2^48 (maxAlloc)")
		base := vc.newRef(st, "mk")
		et := x.Type().Underlying().(*types.Slice).Elem()
		if !isAggregate(et) {
			for _, l := range enc.Leaves(et) {
				arr := vc.heapGet(st, vc.memKey(et, l.Name), SArr(SInt, SArr(enc.Idx(), l.Sort)))
				vc.sc.Assume(mkEq(mkSelect(arr, base), enc.zeroTerm(SArr(enc.Idx(), l.Sort))), "make zeroes")
			}
		}
		fr.vals[x] = &FV{T: x.Type(), L: []Term{base, enc.idxLit(0), ln, cp}}
	case *ssa.MakeMap:
		r := vc.newRef(st, "map")
		fr.vals[x] = scalar(x.Type(), r)
	case *ssa.MapUpdate:
		m := fr.val(x.Map, st).(*FV)
		fr.nilCheck(m.L[0], reach, "assignment to entry in nil map")
		vc.note("map contents are not modelled (updates dropped, lookups arbitrary)")
	case *ssa.Lookup:
		if _, isMap := x.X.Type().Underlying().(*types.Map); isMap {
			vc.note("map contents are not modelled (updates dropped, lookups arbitrary)")
			fr.vals[x] = vc.freshVal("lookup", x.Type(), st)
			return
		}
		// string index
		s := fr.val(x.X, st).(*FV)
		i := enc.toIdx(fr.val(x.Index, st).(*FV).Term(), x.Index.Type())
		fr.oblige("index", reach, mkAnd(enc.idxLe(enc.idxLit(0), i), enc.idxLt(i, s.Len())), "string index in range")
		fr.vals[x] = scalar(x.Type(), mkSelect(mkSelect(vc.strMem(), s.Base()), enc.add(s.Off(), i)))
	case *ssa.MakeClosure:
		fn := x.Fn.(*ssa.Function)
		id := vc.funcID(fn)
		fr.vals[x] = scalar(x.Type(), id)
		if vc.closures == nil {
			vc.closures = map[*ssa.MakeClosure][]Val{}
		}
		var bs []Val
		for _, b := range x.Bindings {
			bs = append(bs, fr.val(b, st))
		}
		vc.closures[x] = bs
	case *ssa.Range:
		fr.vals[x] = scalar(types.Typ[types.Int], vc.sc.Decl("rangeiter", SInt))
	case *ssa.Next:
		tv := &TV{T: x.Type()}
		tup := x.Type().(*types.Tuple)
		for i := 0; i < tup.Len(); i++ {
			tv.E = append(tv.E, vc.freshVal("next", tup.At(i).Type(), st))
		}
		vc.note("range over map/string: iteration order and contents arbitrary")
		fr.vals[x] = tv
	case *ssa.Defer:
		vc.unsupportedf("defer")
	case *ssa.Go:
		vc.unsupportedf("go statement")
	case *ssa.Select, *ssa.Send, *ssa.MakeChan:
		vc.unsupportedf("channel operation")
	case *ssa.SliceToArrayPointer:
		s := fr.val(x.X, st).(*FV)
		vc.note("slice-to-array-pointer conversion: treated as a fresh pointer")
		_ = s
		fr.vals[x] = vc.freshVal("s2a", x.Type(), st)
	default:
		vc.unsupportedf("instruction %T", in)
	}
}

func retype(v Val, t types.Type) Val {
	switch x := v.(type) {
	case *FV:
		return &FV{T: t, L: x.L}
	case *SV:
		return &SV{T: t, F: x.F}
	case *AV:
		return &AV{T: t, L: x.L}
	}
	return v
}

func (fr *Frame) nilCheck(p Term, reach Term, desc string) {
	fr.oblige("nil", reach, mkNot(mkEq(p, intLit64(0))), desc)
}

func (fr *Frame) store(x *ssa.Store, st *State, reach Term) {
	vc := fr.vc
	v := fr.val(x.Val, st)
	if a, ok := x.Addr.(*ssa.Alloc); ok && !fr.escapes[a] {
		st.Locals[a] = v
		return
	}
	addr := fr.val(x.Addr, st)
	if lv, ok := addr.(*LV); ok && lv.Kind == LLocal {
		a := lv.Alloc.(*ssa.Alloc)
		fr.checkNoLoc(v)
		cur, have := st.Locals[a]
		if !have {
			cur = vc.enc.zeroVal(a.Type().(*types.Pointer).Elem())
		}
		st.Locals[a] = fr.updatePath(cur, lv.Path, v)
		return
	}
	switch p := addr.(type) {
	case *LV:
		fv, ok := v.(*FV)
		if !ok {
			vc.unsupportedf("store of aggregate through interior pointer")
		}
		fr.checkNoLoc(v)
		fr.checkWriteLV(p, fv.T, reach)
		vc.storeFlat(st, p, fv)
		fr.recordProv(st, p)
	case *FV:
		fr.nilCheck(p.L[0], reach, "store through nil pointer")
		elem := x.Addr.Type().Underlying().(*types.Pointer).Elem()
		if isAggregate(elem) {
			fr.checkWriteObj(elem, p.L[0], reach)
			vc.storeObj(st, p.L[0], v)
		} else {
			lv := &LV{Kind: LCell, Key: elemKey(elem), Ref: p.L[0]}
			fr.checkWriteLV(lv, elem, reach)
			vc.storeFlat(st, lv, v.(*FV))
			fr.recordProv(st, lv)
		}
	default:
		vc.unsupportedf("store through %T", addr)
	}
}

func (fr *Frame) checkNoLoc(v Val) {
	if _, ok := v.(*LV); ok {
		fr.vc.unsupportedf("interior pointer stored to memory")
	}
}

// recordProv is a no-op hook: provenance is recorded in storeFlat itself.
func (fr *Frame) recordProv(st *State, lv *LV) {}

func (fr *Frame) load(addr Val, elem types.Type, st *State, reach Term) Val {
	vc := fr.vc
	if lv, ok := addr.(*LV); ok && lv.Kind == LLocal {
		a := lv.Alloc.(*ssa.Alloc)
		cur, have := st.Locals[a]
		if !have {
			cur = vc.enc.zeroVal(a.Type().(*types.Pointer).Elem())
		}
		return fr.readPath(cur, lv.Path)
	}
	switch p := addr.(type) {
	case *LV:
		v := vc.loadFlat(st, p, elem)
		return v
	case *FV:
		fr.nilCheck(p.L[0], reach, "load through nil pointer")
		if isAggregate(elem) {
			return vc.loadObj(st, p.L[0], elem)
		}
		return vc.loadFlat(st, &LV{Kind: LCell, Key: elemKey(elem), Ref: p.L[0]}, elem)
	}
	vc.unsupportedf("load through %T", addr)
	return nil
}

func (fr *Frame) unop(x *ssa.UnOp, st *State, reach Term) {
	vc := fr.vc
	enc := vc.enc
	switch x.Op {
	case token.MUL:
		if a, ok := x.X.(*ssa.Alloc); ok && !fr.escapes[a] {
			v, ok := st.Locals[a]
			if !ok {
				v = enc.zeroVal(x.Type())
			}
			fr.vals[x] = v
			return
		}
		addr := fr.val(x.X, st)
		if isAggregate(x.Type()) {
			// a load whose value is never used (e.g. the array copy of `range arr`)
			used := false
			for _, r := range *x.Referrers() {
				if _, dbg := r.(*ssa.DebugRef); !dbg {
					used = true
				}
			}
			if !used {
				if p, ok := addr.(*FV); ok {
					fr.nilCheck(p.L[0], reach, "load through nil pointer")
				}
				return
			}
		}
		v := fr.load(addr, x.Type(), st, reach)
		// name the loaded leaves and assume the type invariant of memory contents
		if fv, ok := v.(*FV); ok {
			nv := &FV{T: fv.T}
			for _, l := range fv.L {
				nv.L = append(nv.L, vc.sc.Def("ld", l))
			}
			v = nv
			vc.sc.Assume(mkImplies(reach, vc.wellTyped(v, st)), "")
			vc.sc.Assume(mkImplies(reach, vc.ptrAllocated(v, st)), "")
		}
		fr.vals[x] = v
	case token.NOT:
		v := fr.val(x.X, st).(*FV)
		fr.vals[x] = scalar(x.Type(), mkNot(v.Term()))
	case token.SUB:
		v := fr.val(x.X, st).(*FV)
		if isFloat(x.Type()) {
			fr.vals[x] = vc.freshVal("fneg", x.Type(), st)
			return
		}
		t := v.Term()
		if t.Sort.IsBV() {
			fr.vals[x] = scalar(x.Type(), app(t.Sort, "bvneg", t))
		} else {
			r := app(SInt, "-", t)
			fr.overflowCheck(r, x.Type(), reach, "negation")
			fr.vals[x] = scalar(x.Type(), r)
		}
	case token.XOR:
		v := fr.val(x.X, st).(*FV)
		t := v.Term()
		if t.Sort.IsBV() {
			fr.vals[x] = scalar(x.Type(), app(t.Sort, "bvnot", t))
		} else {
			w, signed, _ := intInfo(x.Type())
			if signed {
				fr.vals[x] = scalar(x.Type(), app(SInt, "-", app(SInt, "-", t), intLit64(1)))
			} else {
				_, hi := typeBounds(w, false)
				fr.vals[x] = scalar(x.Type(), app(SInt, "-", intLit(hi), t))
			}
		}
	case token.ARROW:
		vc.unsupportedf("channel receive")
	default:
		vc.unsupportedf("unary operator %s", x.Op)
	}
}

func (fr *Frame) overflowCheck(r Term, t types.Type, reach Term, what string) {
	vc := fr.vc
	if vc.enc.Mode != ModeInt {
		return
	}
	if _, _, ok := intInfo(t); !ok {
		return
	}
	fr.oblige("overflow", reach, vc.enc.typeRange(r, t), what+" does not overflow "+t.String())
}

func (fr *Frame) binop(x *ssa.BinOp, st *State, reach Term) {
	vc := fr.vc
	enc := vc.enc
	a := fr.val(x.X, st)
	b := fr.val(x.Y, st)
	xt := x.X.Type()
	switch x.Op {
	case token.EQL, token.NEQ:
		eq := fr.valEq(a, b, xt, st)
		if x.Op == token.NEQ {
			eq = mkNot(eq)
		}
		fr.vals[x] = scalar(x.Type(), eq)
		return
	}
	if isFloat(xt) {
		fr.vals[x] = vc.freshVal("fop", x.Type(), st)
		return
	}
	if isString(xt) {
		// concatenation / ordering: arbitrary result
		vc.note("string concatenation/ordering: result arbitrary")
		fr.vals[x] = vc.freshVal("strop", x.Type(), st)
		return
	}
	ta := a.(*FV).Term()
	tb := b.(*FV).Term()
	_, signed, _ := intInfo(xt)
	bt := types.Typ[types.Bool]
	switch x.Op {
	case token.LSS:
		fr.vals[x] = scalar(bt, enc.lt(ta, tb, signed))
	case token.LEQ:
		fr.vals[x] = scalar(bt, enc.le(ta, tb, signed))
	case token.GTR:
		fr.vals[x] = scalar(bt, enc.lt(tb, ta, signed))
	case token.GEQ:
		fr.vals[x] = scalar(bt, enc.le(tb, ta, signed))
	case token.ADD, token.SUB, token.MUL:
		var r Term
		switch x.Op {
		case token.ADD:
			r = enc.add(ta, tb)
		case token.SUB:
			r = enc.sub(ta, tb)
		default:
			r = enc.mul(ta, tb)
		}
		if fr.wrapsAt(x) {
			w, sg, _ := intInfo(x.Type())
			m := intLit(new(bigInt).Lsh(bigOne, uint(w)))
			if sg {
				h := intLit(new(bigInt).Lsh(bigOne, uint(w-1)))
				r = app(SInt, "-", app(SInt, "mod", app(SInt, "+", r, h), m), h)
			} else {
				r = app(SInt, "mod", r, m)
			}
			fr.vals[x] = scalar(x.Type(), vc.sc.Def("t", r))
			return
		}
		r = vc.sc.Def("t", r)
		fr.overflowCheck(r, x.Type(), reach, x.Op.String())
		if enc.Mode == ModeBV && fr.fc != nil && fr.fc.NoOverflow {
			fr.bvOverflowCheck(x.Op, ta, tb, signed, reach)
		}
		fr.vals[x] = scalar(x.Type(), r)
	case token.QUO, token.REM:
		zero := enc.zeroTerm(tb.Sort)
		fr.oblige("divzero", reach, mkNot(mkEq(tb, zero)), "integer division by zero")
		var r Term
		if x.Op == token.QUO {
			r = enc.quo(ta, tb, signed)
			fr.overflowCheck(r, x.Type(), reach, "/")
		} else {
			r = enc.rem(ta, tb, signed)
		}
		fr.vals[x] = scalar(x.Type(), vc.sc.Def("t", r))
	case token.AND, token.OR, token.XOR, token.AND_NOT:
		if enc.Mode == ModeInt {
			// operands occupying disjoint bit ranges: | and ^ are +, & is 0
			hx, lx := bitsOf(x.X, 0)
			hy, ly := bitsOf(x.Y, 0)
			if lx >= hy || ly >= hx {
				switch x.Op {
				case token.OR, token.XOR:
					fr.vals[x] = scalar(x.Type(), vc.sc.Def("t", enc.add(ta, tb)))
					return
				case token.AND:
					fr.vals[x] = scalar(x.Type(), intLit64(0))
					return
				}
			}
			// (x << c) | y with y < 2^c semantically: the disjointness becomes a
			// side obligation and the result is the sum
			_, xIsConst := x.X.(*ssa.Const)
			_, yIsConst := x.Y.(*ssa.Const)
			if _, sg, _ := intInfo(xt); !sg && !xIsConst && !yIsConst && (x.Op == token.OR || x.Op == token.XOR) {
				if lx > 0 && lx < 63 {
					fr.oblige("bits", reach, app(SBool, "<", tb, intLit(new(bigInt).Lsh(bigOne, uint(lx)))), "operands of | occupy disjoint bits")
					fr.vals[x] = scalar(x.Type(), vc.sc.Def("t", enc.add(ta, tb)))
					return
				}
				if ly > 0 && ly < 63 {
					fr.oblige("bits", reach, app(SBool, "<", ta, intLit(new(bigInt).Lsh(bigOne, uint(ly)))), "operands of | occupy disjoint bits")
					fr.vals[x] = scalar(x.Type(), vc.sc.Def("t", enc.add(ta, tb)))
					return
				}
			}
		}
		if enc.Mode == ModeInt {
			// one operand syntactically narrower than 2^k (k <= 8), the other wide:
			// only the low k bits of the wide one take part
			hx, _ := bitsOf(x.X, 0)
			hy, _ := bitsOf(x.Y, 0)
			_, xc := x.X.(*ssa.Const)
			_, yc := x.Y.(*ssa.Const)
			if _, sg, _ := intInfo(xt); !sg && !xc && !yc && x.Op != token.AND_NOT {
				wide, narrow, k := ta, tb, hy
				if hx < hy {
					wide, narrow, k = tb, ta, hx
				}
				if k >= 1 && k <= 8 && (hx > 16 || hy > 16) {
					p := intLit(new(bigInt).Lsh(bigOne, uint(k)))
					low := vc.sc.Def("t", app(SInt, "mod", wide, p))
					bit := func(v Term, i int) Term {
						q := intLit(new(bigInt).Lsh(bigOne, uint(i)))
						return mkEq(app(SInt, "mod", app(SInt, "div", v, q), intLit64(2)), intLit64(1))
					}
					terms := []Term{intLit64(0)}
					for i := 0; i < k; i++ {
						var c Term
						switch x.Op {
						case token.AND:
							c = mkAnd(bit(low, i), bit(narrow, i))
						case token.OR:
							c = mkOr(bit(low, i), bit(narrow, i))
						default:
							c = mkNot(mkEq(bit(low, i), bit(narrow, i)))
						}
						terms = append(terms, mkIte(c, intLit(new(bigInt).Lsh(bigOne, uint(i))), intLit64(0)))
					}
					lowRes := app(SInt, "+", terms...)
					if x.Op == token.AND {
						fr.vals[x] = scalar(x.Type(), vc.sc.Def("t", lowRes))
					} else {
						fr.vals[x] = scalar(x.Type(), vc.sc.Def("t", app(SInt, "+", app(SInt, "-", wide, low), lowRes)))
					}
					return
				}
			}
		}
		fr.vals[x] = scalar(x.Type(), vc.sc.Def("t", enc.bitop(x.Op, ta, tb, xt)))
	case token.SHL, token.SHR:
		_, ysigned, _ := intInfo(x.Y.Type())
		if ysigned {
			fr.oblige("shift", reach, enc.le(enc.zeroTerm(tb.Sort), tb, true), "negative shift count")
		}
		r := vc.sc.Def("t", enc.shift(x.Op, ta, tb, signed, ysigned))
		if x.Op == token.SHL && fr.wrapsAt(x) {
			w, sg, _ := intInfo(x.Type())
			m := intLit(new(bigInt).Lsh(bigOne, uint(w)))
			if sg {
				h := intLit(new(bigInt).Lsh(bigOne, uint(w-1)))
				r = vc.sc.Def("t", app(SInt, "-", app(SInt, "mod", app(SInt, "+", r, h), m), h))
			} else {
				r = vc.sc.Def("t", app(SInt, "mod", r, m))
			}
		} else if x.Op == token.SHL {
			fr.overflowCheck(r, x.Type(), reach, "<<")
		}
		fr.vals[x] = scalar(x.Type(), r)
	default:
		vc.unsupportedf("binary operator %s", x.Op)
	}
}

func (fr *Frame) bvOverflowCheck(op token.Token, a, b Term, signed bool, reach Term) {
	w := a.Sort.Width()
	ea := bvResize(a, 2*w, signed)
	eb := bvResize(b, 2*w, signed)
	var wide, narrow Term
	switch op {
	case token.ADD:
		wide = app(SBV(2*w), "bvadd", ea, eb)
		narrow = app(a.Sort, "bvadd", a, b)
	case token.SUB:
		wide = app(SBV(2*w), "bvsub", ea, eb)
		narrow = app(a.Sort, "bvsub", a, b)
	default:
		wide = app(SBV(2*w), "bvmul", ea, eb)
		narrow = app(a.Sort, "bvmul", a, b)
	}
	fr.oblige("overflow", reach, mkEq(wide, bvResize(narrow, 2*w, signed)), op.String()+" does not wrap")
}

func (fr *Frame) valEq(a, b Val, t types.Type, st *State) Term {
	vc := fr.vc
	switch x := a.(type) {
	case *FV:
		y, ok := b.(*FV)
		if !ok || len(x.L) != len(y.L) {
			vc.unsupportedf("comparison of differently shaped values")
		}
		if isString(t) {
			// equal only if provably the same string; otherwise arbitrary
			if x.L[0].S == y.L[0].S && x.L[1].S == y.L[1].S && x.L[2].S == y.L[2].S {
				return tTrue
			}
			d := vc.sc.Decl("streq", SBool)
			// different lengths are certainly different; two empty strings are equal
			vc.sc.Assume(mkImplies(d, mkEq(x.L[2], y.L[2])), "equal strings have equal length")
			zero := vc.enc.idxLit(0)
			vc.sc.Assume(mkImplies(mkAnd(mkEq(x.L[2], zero), mkEq(y.L[2], zero)), d), "empty strings are equal")
			return d
		}
		if _, isSl := t.Underlying().(*types.Slice); isSl {
			return mkEq(x.L[0], y.L[0]) // only comparison with nil is legal Go
		}
		if isFloat(t) {
			return vc.sc.Decl("feq", SBool)
		}
		var cs []Term
		for i := range x.L {
			cs = append(cs, mkEq(x.L[i], y.L[i]))
		}
		return mkAnd(cs...)
	case *SV:
		y := b.(*SV)
		var cs []Term
		su := x.T.Underlying().(*types.Struct)
		for i := range x.F {
			cs = append(cs, fr.valEq(x.F[i], y.F[i], su.Field(i).Type(), st))
		}
		return mkAnd(cs...)
	case *AV:
		y := b.(*AV)
		at := x.T.Underlying().(*types.Array)
		// arrays compare element-wise over [0, N)
		if at.Len() <= 16 {
			var cs []Term
			for i := int64(0); i < at.Len(); i++ {
				for j := range x.L {
					cs = append(cs, mkEq(mkSelect(x.L[j], vc.enc.idxLit(i)), mkSelect(y.L[j], vc.enc.idxLit(i))))
				}
			}
			return mkAnd(cs...)
		}
		return vc.sc.Decl("arreq", SBool)
	case *LV:
		vc.unsupportedf("comparison of interior pointers")
	}
	vc.unsupportedf("comparison")
	return tFalse
}

func (fr *Frame) indexAddr(x *ssa.IndexAddr, st *State, reach Term) {
	vc := fr.vc
	enc := vc.enc
	i := enc.toIdx(fr.val(x.Index, st).(*FV).Term(), x.Index.Type())
	if lv, ok := fr.val(x.X, st).(*LV); ok && lv.Kind == LLocal {
		at := x.X.Type().Underlying().(*types.Pointer).Elem().Underlying().(*types.Array)
		fr.oblige("index", reach, mkAnd(enc.idxLe(enc.idxLit(0), i), enc.idxLt(i, enc.idxLit(at.Len()))), "index in range")
		np := append(append([]pathElem{}, lv.Path...), pathElem{idx: i, isIdx: true})
		fr.vals[x] = &LV{T: x.Type(), Kind: LLocal, ElemT: at.Elem(), Alloc: lv.Alloc, Path: np}
		return
	}
	base := fr.val(x.X, st).(*FV)
	var b, off, ln Term
	var et types.Type
	switch u := x.X.Type().Underlying().(type) {
	case *types.Slice:
		et = u.Elem()
		b, off, ln = base.Base(), base.Off(), base.Len()
	case *types.Pointer:
		at := u.Elem().Underlying().(*types.Array)
		et = at.Elem()
		fr.nilCheck(base.L[0], reach, "index through nil array pointer")
		b, off, ln = base.L[0], enc.idxLit(0), enc.idxLit(at.Len())
	default:
		vc.unsupportedf("IndexAddr on %s", x.X.Type())
	}
	fr.oblige("index", reach, mkAnd(enc.idxLe(enc.idxLit(0), i), enc.idxLt(i, ln)), "index in range")
	idx := vc.sc.Def("ix", enc.add(off, i))
	if ti, ok := vc.tables[b.S]; ok && !isAggregate(et) {
		fr.vals[x] = &LV{T: x.Type(), Kind: LTable, Ref: ti.term, Idx: idx, ElemT: et}
		return
	}
	if isAggregate(et) {
		fr.vals[x] = scalar(x.Type(), vc.elemRef(b, idx))
	} else {
		fr.vals[x] = &LV{T: x.Type(), Kind: LElem, Key: elemKey(et), Ref: b, Idx: idx, ElemT: et}
	}
}

func (fr *Frame) indexVal(x *ssa.Index, st *State, reach Term) {
	vc := fr.vc
	enc := vc.enc
	i := enc.toIdx(fr.val(x.Index, st).(*FV).Term(), x.Index.Type())
	switch v := fr.val(x.X, st).(type) {
	case *AV:
		at := v.T.Underlying().(*types.Array)
		fr.oblige("index", reach, mkAnd(enc.idxLe(enc.idxLit(0), i), enc.idxLt(i, enc.idxLit(at.Len()))), "index in range")
		out := enc.elemOfAV(v, i)
		vc.sc.Assume(mkImplies(reach, vc.wellTyped(out, st)), "")
		vc.sc.Assume(mkImplies(reach, vc.ptrAllocated(out, st)), "")
		fr.vals[x] = out
	case *FV:
		if isString(v.T) {
			fr.oblige("index", reach, mkAnd(enc.idxLe(enc.idxLit(0), i), enc.idxLt(i, v.Len())), "string index in range")
			fr.vals[x] = scalar(x.Type(), mkSelect(mkSelect(vc.strMem(), v.Base()), enc.add(v.Off(), i)))
			return
		}
		vc.unsupportedf("Index on %s", v.T)
	default:
		vc.unsupportedf("Index on %T", v)
	}
}

func (fr *Frame) sliceInstr(x *ssa.Slice, st *State, reach Term) {
	vc := fr.vc
	enc := vc.enc
	src := fr.val(x.X, st).(*FV)
	var b, off, ln, cp Term
	isStr := false
	switch u := x.X.Type().Underlying().(type) {
	case *types.Slice:
		b, off, ln, cp = src.Base(), src.Off(), src.Len(), src.Cap()
	case *types.Basic:
		b, off, ln, cp = src.Base(), src.Off(), src.Len(), src.Len()
		isStr = true
	case *types.Pointer:
		at := u.Elem().Underlying().(*types.Array)
		fr.nilCheck(src.L[0], reach, "slice of nil array pointer")
		n := enc.idxLit(at.Len())
		b, off, ln, cp = src.L[0], enc.idxLit(0), n, n
	default:
		vc.unsupportedf("slice of %s", x.X.Type())
	}
	lo := enc.idxLit(0)
	if x.Low != nil {
		lo = enc.toIdx(fr.val(x.Low, st).(*FV).Term(), x.Low.Type())
	}
	hi := ln
	if x.High != nil {
		hi = enc.toIdx(fr.val(x.High, st).(*FV).Term(), x.High.Type())
	}
	limit := cp
	if isStr {
		limit = ln
	}
	if x.Max != nil {
		mx := enc.toIdx(fr.val(x.Max, st).(*FV).Term(), x.Max.Type())
		fr.oblige("slice", reach, mkAnd(enc.idxLe(enc.idxLit(0), lo), enc.idxLe(lo, hi), enc.idxLe(hi, mx), enc.idxLe(mx, cp)), "slice bounds in range")
		limit = mx
	} else {
		fr.oblige("slice", reach, mkAnd(enc.idxLe(enc.idxLit(0), lo), enc.idxLe(lo, hi), enc.idxLe(hi, limit)), "slice bounds in range")
	}
	noff := vc.sc.Def("soff", enc.add(off, lo))
	nlen := vc.sc.Def("slen", enc.sub(hi, lo))
	if isStr {
		fr.vals[x] = &FV{T: x.Type(), L: []Term{b, noff, nlen}}
		return
	}
	ncap := vc.sc.Def("scap", enc.sub(limit, lo))
	fr.vals[x] = &FV{T: x.Type(), L: []Term{b, noff, nlen, ncap}}
}

func (fr *Frame) convert(x *ssa.Convert, st *State, reach Term) {
	vc := fr.vc
	enc := vc.enc
	v := fr.val(x.X, st)
	from, to := x.X.Type(), x.Type()
	fw, fsigned, fromInt := intInfo(from)
	tw, _, toInt := intInfo(to)
	_ = fw
	switch {
	case fromInt && toInt:
		t := v.(*FV).Term()
		if enc.Mode == ModeBV {
			fr.vals[x] = scalar(to, bvResize(t, tw, fsigned))
		} else {
			fr.vals[x] = scalar(to, vc.sc.Def("cv", enc.convInt(t, from, to)))
		}
	case isFloat(from) || isFloat(to):
		fr.vals[x] = vc.freshVal("fconv", to, st)
	case isString(to):
		// []byte/rune/int -> string: fresh immutable string
		out := vc.freshVal("tostr", to, st).(*FV)
		if sv, ok := v.(*FV); ok {
			if _, isSl := from.Underlying().(*types.Slice); isSl {
				vc.sc.Assume(mkEq(out.Len(), sv.Len()), "string(bytes) keeps the length")
				vc.note("string(bytes): contents not modelled")
			}
		}
		fr.vals[x] = out
	case isString(from):
		if sl, isSl := to.Underlying().(*types.Slice); isSl {
			sv := v.(*FV)
			base := vc.newRef(st, "bytesof")
			out := &FV{T: to, L: []Term{base, enc.idxLit(0), sv.Len(), sv.Len()}}
			if w, _, ok := intInfo(sl.Elem()); ok && w == 8 {
				// contents: Mem[base][k] = STR[sbase][soff+k]
				key := vc.memKey(sl.Elem(), "v")
				arr := vc.heapGet(st, key, SArr(SInt, SArr(enc.Idx(), vc.byteSort())))
				k := Term{"k?c", enc.Idx()}
				body := mkImplies(mkAnd(enc.idxLe(enc.idxLit(0), k), enc.idxLt(k, sv.Len())),
					mkEq(mkSelect(mkSelect(arr, base), k), mkSelect(mkSelect(vc.strMem(), sv.Base()), enc.add(sv.Off(), k))))
				vc.sc.Assume(Term{fmt.Sprintf("(forall ((k?c %s)) %s)", enc.Idx(), body.S), SBool}, "[]byte(string) copies the contents")
			}
			fr.vals[x] = out
			return
		}
		vc.unsupportedf("conversion from string to %s", to)
	default:
		// pointer <-> unsafe.Pointer etc.
		if fv, ok := v.(*FV); ok && len(fv.L) == len(enc.Leaves(to)) {
			fr.vals[x] = &FV{T: to, L: fv.L}
			return
		}
		vc.unsupportedf("conversion from %s to %s", from, to)
	}
}

func (fr *Frame) typeAssert(x *ssa.TypeAssert, st *State, reach Term) {
	vc := fr.vc
	iv := fr.val(x.X, st).(*FV)
	var ok Term
	var res Val
	if _, isIface := x.AssertedType.Underlying().(*types.Interface); isIface {
		ok = vc.sc.Decl("assertok", SBool)
		vc.sc.Assume(mkImplies(ok, mkNot(mkEq(iv.L[0], intLit64(0)))), "nil interface fails every assertion")
		res = &FV{T: x.AssertedType, L: iv.L}
	} else {
		ok = mkEq(iv.L[0], vc.typeID(x.AssertedType))
		if _, isPtr := x.AssertedType.Underlying().(*types.Pointer); isPtr {
			res = scalar(x.AssertedType, iv.L[1])
		} else {
			res = vc.freshVal("unboxed", x.AssertedType, st)
		}
	}
	if x.CommaOk {
		fr.vals[x] = &TV{T: x.Type(), E: []Val{res, scalar(types.Typ[types.Bool], ok)}}
		return
	}
	fr.oblige("typeassert", reach, ok, "type assertion succeeds")
	fr.vals[x] = res
}


func (fr *Frame) readPath(v Val, path []pathElem) Val {
	for _, pe := range path {
		switch x := v.(type) {
		case *SV:
			v = x.F[pe.field]
		case *AV:
			v = fr.vc.enc.elemOfAV(x, pe.idx)
		default:
			fr.vc.unsupportedf("path into %T", v)
		}
	}
	return v
}

func (fr *Frame) updatePath(v Val, path []pathElem, nv Val) Val {
	if len(path) == 0 {
		return nv
	}
	pe := path[0]
	switch x := v.(type) {
	case *SV:
		out := &SV{T: x.T, F: append([]Val{}, x.F...)}
		out.F[pe.field] = fr.updatePath(x.F[pe.field], path[1:], nv)
		return out
	case *AV:
		def := func(t Term) Term { return fr.vc.sc.Def("arr", t) }
		if len(path) != 1 {
			inner := fr.vc.enc.elemOfAV(x, pe.idx)
			return fr.vc.enc.setElemOfAV(x, pe.idx, fr.updatePath(inner, path[1:], nv), def)
		}
		return fr.vc.enc.setElemOfAV(x, pe.idx, nv, def)
	}
	fr.vc.unsupportedf("update path into %T", v)
	return nil
}


// bitsOf bounds the bits a non-negative SSA value can occupy: value < 2^hi and
// value is a multiple of 2^lo. Derived from the expression shape only.
func bitsOf(v ssa.Value, depth int) (hi, lo int) {
	w, signed, ok := intInfo(v.Type())
	if !ok {
		return 64, 0
	}
	def := func() (int, int) {
		if signed {
			return 64, 0
		}
		return w, 0
	}
	if depth > 12 {
		return def()
	}
	constOf := func(c ssa.Value) (uint64, bool) {
		k, ok := c.(*ssa.Const)
		if !ok || k.Value == nil {
			return 0, false
		}
		u, exact := constantUint64(k)
		return u, exact
	}
	switch x := v.(type) {
	case *ssa.UnOp:
		// a load of a local: the union over everything stored to it
		if a, ok := x.X.(*ssa.Alloc); ok && x.Op == token.MUL {
			hi, lo, n := 0, 64, 0
			for _, r := range *a.Referrers() {
				switch u := r.(type) {
				case *ssa.Store:
					if u.Addr != ssa.Value(a) {
						return def()
					}
					h, l := bitsOf(u.Val, depth+1)
					if h > hi {
						hi = h
					}
					if l < lo {
						lo = l
					}
					n++
				case *ssa.UnOp, *ssa.DebugRef:
				default:
					return def()
				}
			}
			if n > 0 {
				dh, _ := def()
				if hi > dh {
					hi = dh
				}
				return hi, lo
			}
		}
	case *ssa.Const:
		if u, ok := constOf(x); ok {
			if u == 0 {
				return 0, 64
			}
			return bitLen64(u), trailingZeros64(u)
		}
	case *ssa.Convert:
		_, fs, fok := intInfo(x.X.Type())
		if fok && !fs {
			h, l := bitsOf(x.X, depth+1)
			dh, _ := def()
			if h > dh {
				h = dh
			}
			return h, l
		}
	case *ssa.BinOp:
		switch x.Op {
		case token.SHL:
			if c, ok := constOf(x.Y); ok && c < 64 {
				h, l := bitsOf(x.X, depth+1)
				dh, _ := def()
				h += int(c)
				if h > dh {
					// may wrap: an overflow obligation covers it in int mode, keep the type bound
					h = dh
				}
				return h, l + int(c)
			}
		case token.SHR:
			if c, ok := constOf(x.Y); ok && c < 64 && !signed {
				h, l := bitsOf(x.X, depth+1)
				h -= int(c)
				if h < 0 {
					h = 0
				}
				l -= int(c)
				if l < 0 {
					l = 0
				}
				return h, l
			}
		case token.AND:
			hx, lx := bitsOf(x.X, depth+1)
			hy, ly := bitsOf(x.Y, depth+1)
			if hy < hx {
				hx = hy
			}
			if ly > lx {
				lx = ly
			}
			return hx, lx
		case token.OR, token.XOR:
			hx, lx := bitsOf(x.X, depth+1)
			hy, ly := bitsOf(x.Y, depth+1)
			if hy > hx {
				hx = hy
			}
			if ly < lx {
				lx = ly
			}
			return hx, lx
		}
	}
	return def()
}

func constantUint64(k *ssa.Const) (uint64, bool) {
	if k.Value == nil {
		return 0, false
	}
	bi, ok := new(bigInt).SetString(k.Value.ExactString(), 10)
	if !ok || bi.Sign() < 0 || !bi.IsUint64() {
		return 0, false
	}
	return bi.Uint64(), true
}

func bitLen64(u uint64) int {
	n := 0
	for u != 0 {
		n++
		u >>= 1
	}
	return n
}

func trailingZeros64(u uint64) int {
	if u == 0 {
		return 64
	}
	n := 0
	for u&1 == 0 {
		n++
		u >>= 1
	}
	return n
}


func calleeShortName(c *ssa.CallCommon) string {
	if c.IsInvoke() {
		return c.Method.Name()
	}
	if b, ok := c.Value.(*ssa.Builtin); ok {
		// append and copy are program points a contract may anchor an assertion to
		// (assert@call append#k); the other builtins get no ordinal
		if b.Name() == "append" || b.Name() == "copy" {
			return b.Name()
		}
		return ""
	}
	if f := c.StaticCallee(); f != nil {
		return f.Name()
	}
	if prm := paramOfFuncValue(c.Value); prm != nil {
		return prm.Name()
	}
	return c.Value.Name()
}

// paramOfFuncValue: the function-typed parameter a called value comes from
// (in naive form: a load of the local the parameter was spilled to, provided
// that local is never reassigned).
func paramOfFuncValue(v ssa.Value) *ssa.Parameter {
	if p, ok := v.(*ssa.Parameter); ok {
		return p
	}
	u, ok := v.(*ssa.UnOp)
	if !ok || u.Op != token.MUL {
		return nil
	}
	a, ok := u.X.(*ssa.Alloc)
	if !ok || a.Referrers() == nil {
		return nil
	}
	var prm *ssa.Parameter
	for _, r := range *a.Referrers() {
		if st, ok := r.(*ssa.Store); ok && st.Addr == ssa.Value(a) {
			p, isP := st.Val.(*ssa.Parameter)
			if !isP || prm != nil {
				return nil
			}
			prm = p
		}
	}
	return prm
}

var bigOne = new(bigInt).SetInt64(1)


// storeTo writes a flat value to a location of any kind.
func (fr *Frame) storeTo(lv *LV, v *FV, st *State) {
	if lv.Kind == LLocal {
		a := lv.Alloc.(*ssa.Alloc)
		cur, have := st.Locals[a]
		if !have {
			cur = fr.vc.enc.zeroVal(a.Type().(*types.Pointer).Elem())
		}
		st.Locals[a] = fr.updatePath(cur, lv.Path, v)
		return
	}
	fr.vc.storeFlat(st, lv, v)
}


// wrapsAt: wraps, or "wraps <op> into <local>" when the result of x is stored
// directly into that local (x += e, x++, x = a - b).
func (fr *Frame) wrapsAt(x *ssa.BinOp) bool {
	if fr.wraps(x.Op, x.Type()) {
		return true
	}
	if fr.vc.enc.Mode != ModeInt || fr.fc == nil || fr.fc.WrapsInto == nil {
		return false
	}
	if _, _, ok := intInfo(x.Type()); !ok {
		return false
	}
	name := map[token.Token]string{token.SHL: "shl", token.ADD: "add", token.SUB: "sub", token.MUL: "mul"}[x.Op]
	set := fr.fc.WrapsInto[name]
	if set == nil || x.Referrers() == nil {
		return false
	}
	for _, r := range *x.Referrers() {
		if st, ok := r.(*ssa.Store); ok && st.Val == x {
			if a, ok := st.Addr.(*ssa.Alloc); ok && set[a.Comment] {
				return true
			}
		}
	}
	return false
}

// wraps: in int mode, does this operator have declared modular semantics here?
func (fr *Frame) wraps(op token.Token, t types.Type) bool {
	if fr.vc.enc.Mode != ModeInt || fr.fc == nil || fr.fc.Wraps == nil {
		return false
	}
	_, _, ok := intInfo(t)
	if !ok {
		return false
	}
	switch op {
	case token.SHL:
		return fr.fc.Wraps["shl"]
	case token.ADD:
		return fr.fc.Wraps["add"]
	case token.SUB:
		return fr.fc.Wraps["sub"]
	case token.MUL:
		return fr.fc.Wraps["mul"]
	}
	return false
}


// rootTerm strips elemref(.., i) and sub_f(..) wrappers from a reference term.
func rootTerm(t Term) Term {
	s := t.S
	for {
		if !strings.HasPrefix(s, "(elemref ") && !strings.HasPrefix(s, "(sub_") {
			return Term{s, SInt}
		}
		// first argument of the application
		i := strings.IndexByte(s, ' ')
		rest := s[i+1:]
		if strings.HasPrefix(rest, "(") {
			depth := 0
			end := -1
			for j := 0; j < len(rest); j++ {
				if rest[j] == '(' {
					depth++
				} else if rest[j] == ')' {
					depth--
					if depth == 0 {
						end = j
						break
					}
				}
			}
			if end < 0 {
				return t
			}
			s = rest[:end+1]
		} else {
			j := strings.IndexAny(rest, " )")
			if j < 0 {
				return t
			}
			s = rest[:j]
		}
	}
}


// checkWriteLV / checkWriteObj: write-permission obligations for a store of a
// flat value to a heap location, or of an aggregate to an object.
func (fr *Frame) checkWriteLV(lv *LV, t types.Type, reach Term) {
	vc := fr.vc
	if vc.mods == nil {
		return
	}
	var prefix string
	switch lv.Kind {
	case LField:
		prefix = "H|" + lv.Key + "|"
	case LElem:
		prefix = "M|" + lv.Key + "|"
	case LCell:
		prefix = "C|" + lv.Key + "|"
	default:
		return
	}
	ls := vc.enc.Leaves(t)
	fr.checkWrite(prefix+ls[0].Name, lv.Ref, reach)
}

func (fr *Frame) checkWriteObj(t types.Type, ref Term, reach Term) {
	vc := fr.vc
	if vc.mods == nil {
		return
	}
	switch u := t.Underlying().(type) {
	case *types.Struct:
		for i := 0; i < u.NumFields(); i++ {
			ft := u.Field(i).Type()
			if isAggregate(ft) {
				fr.checkWriteObj(ft, vc.subRef(t, i, ref), reach)
			} else {
				fr.checkWrite(vc.fieldKey(t, i, vc.enc.Leaves(ft)[0].Name), ref, reach)
			}
		}
	case *types.Array:
		if isAggregate(u.Elem()) {
			if u.Len() <= 16 {
				for i := int64(0); i < u.Len(); i++ {
					fr.checkWriteObj(u.Elem(), vc.elemRef(ref, vc.enc.idxLit(i)), reach)
				}
			}
			return
		}
		fr.checkWrite(vc.memKey(u.Elem(), vc.enc.Leaves(u.Elem())[0].Name), ref, reach)
	}
}


func (lr *loopRun) backSuffix() string {
	if lr.curBack <= 1 {
		return ""
	}
	return fmt.Sprintf(".b%d", lr.curBack)
}


// returnOrdinal: the position of a return instruction among the function's
// returns in source order (stable under line shifts).
func countReturns(fn *ssa.Function) int {
	n := 0
	for _, b := range fn.Blocks {
		for _, in := range b.Instrs {
			if _, ok := in.(*ssa.Return); ok {
				n++
			}
		}
	}
	return n
}

func returnOrdinal(fn *ssa.Function, r *ssa.Return) int {
	var rs []*ssa.Return
	for _, b := range fn.Blocks {
		for _, in := range b.Instrs {
			if x, ok := in.(*ssa.Return); ok {
				rs = append(rs, x)
			}
		}
	}
	sort.SliceStable(rs, func(i, j int) bool { return rs[i].Pos() < rs[j].Pos() })
	for i, x := range rs {
		if x == r {
			return i + 1
		}
	}
	return 0
}
