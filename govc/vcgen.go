package main

// The VC generator: a forward symbolic executor over go/ssa (naive form) with
// state merging at joins, loops cut at their headers by invariants, and calls
// replaced by the callee's contract.

import (
	"fmt"
	"go/constant"
	"go/token"
	"go/types"
	"sort"
	"strings"

	"golang.org/x/tools/go/ssa"
)

type Obligation struct {
	Name   string
	Kind   string
	Func   string
	Pos    int
	Goal   Term
	Script *Script
	Src    string
	Desc   string
	VC     *FuncVC
	// vacuity probes must be SAT
	ExpectSat bool
	// results
	Status string // unsat | sat | unknown | timeout | error
	Solver string
	Ms     int64
	Output string
	Bounded string
	File    string
	Alts    []*Obligation // per-return-point split of a merged post-condition
	Pre     bool          // already decided at generation time (ground evaluation)
	Twin    bool          // vacuity twin: the goal conjoined with an unconstrained boolean; must NOT be provable
	TwinOf  *Obligation
	HasAlts bool
}

type State struct {
	Locals map[*ssa.Alloc]Val
	Heap   map[string]Term
	Alloc  Term
	Sym    *symHeap // non-nil: a schematic heap whose components are bound variables (opaque spec bodies)
}

type symHeap struct {
	keys  []string
	terms map[string]Term
}

// (bodyStart: script position after the parameters and requires have been assumed)

type opaqueInfo struct {
	name  string
	keys  []string
	sorts []Sort
	// recursive ospecs are translated twice: pass 1 learns the heap footprint
	building  bool
	pass      int
	recursive bool
	reduce    map[int]string // heap key index -> template X (over parameter leaves p?i_k): the component is read only as (select h X)
}

func (s *State) clone() *State {
	n := &State{Locals: make(map[*ssa.Alloc]Val, len(s.Locals)), Heap: make(map[string]Term, len(s.Heap)), Alloc: s.Alloc}
	for k, v := range s.Locals {
		n.Locals[k] = v
	}
	for k, v := range s.Heap {
		n.Heap[k] = v
	}
	return n
}

type FuncVC struct {
	prog     *Prog
	fn       *ssa.Function
	fc       *FuncContract
	cf       *ContractFile
	enc      *Enc
	sc       *Script
	bodyStart int // script position after the parameters and requires have been assumed
	obls     []*Obligation
	entry    map[string]Term
	entrySorts map[string]Sort
	counters map[string]int
	notes    []string // things abstracted (havoc'd calls etc.)
	unsupported []string
	typeIDs  map[string]int
	strLits  map[string]Term
	funcIDs  map[string]int
	subFuncs map[string]bool
	extraDecls []string
	prov       map[string]provInfo
	closures   map[*ssa.MakeClosure][]Val
	globalRefs map[string]Term
	globalDone map[string]bool
	freshRefs  map[string]int // reference term -> script position of its allocation
	keyGoType  map[string]types.Type
	opaque     map[string]*opaqueInfo
	tables     map[string]*tableInfo
	lemmaName  string
	mods       map[string]*modSet // nil: writes are not checked (no contract or `modifies *`)
	inlineDepth int
	entryState *State
	tier string
	modelVars []modelVar
	replayNodes []*rNode
	topFrame *Frame
}

type modelVar struct {
	Name string
	Term string
}

type retPoint struct {
	reach   Term
	results []Val
	st      *State
}

type Frame struct {
	vc      *FuncVC
	fn      *ssa.Function
	fc      *FuncContract
	cf      *ContractFile
	vals    map[ssa.Value]Val
	params  []Val
	entry   *State
	prefix  string
	calls   map[string]int
	loopOrd map[*ssa.BasicBlock]int
	escapes map[*ssa.Alloc]bool
	loopHeads map[int]*State
	loopEntries map[int]*State
	callOrd map[ssa.Instruction]int
	curReach Term
	results []Val // set while checking ensures
	// current position for diagnostics
	curInstr ssa.Instruction
	top     bool
	depth   int
}

type unsupportedErr struct{ msg string }

func (u unsupportedErr) Error() string { return u.msg }

func (vc *FuncVC) unsupportedf(format string, args ...interface{}) {
	panic(unsupportedErr{fmt.Sprintf(format, args...)})
}

func (vc *FuncVC) note(format string, args ...interface{}) {
	s := fmt.Sprintf(format, args...)
	for _, n := range vc.notes {
		if n == s {
			return
		}
	}
	vc.notes = append(vc.notes, s)
}

// ---------- heap access ----------

func (vc *FuncVC) heapSort(key string) Sort {
	return vc.entrySorts[key]
}

func (vc *FuncVC) heapGet(st *State, key string, sort Sort) Term {
	if st.Sym != nil {
		if t, ok := st.Sym.terms[key]; ok {
			return t
		}
		t := Term{fmt.Sprintf("h?%d", len(st.Sym.keys)), sort}
		st.Sym.keys = append(st.Sym.keys, key)
		st.Sym.terms[key] = t
		if _, ok := vc.entrySorts[key]; !ok {
			vc.entrySorts[key] = sort
		}
		return t
	}
	if t, ok := st.Heap[key]; ok {
		return t
	}
	if t, ok := vc.entry[key]; ok {
		return t
	}
	t := vc.sc.DeclP(key, sort)
	vc.entry[key] = t
	vc.entrySorts[key] = sort
	if f := vc.arrayTyped(key, t); !f.IsTrue() {
		vc.sc.AssumeP(f, "memory holds well-typed values")
	}
	return t
}

// declHeap declares a fresh (havoc'd) heap component for key and states that
// it holds well-typed values.
func (vc *FuncVC) declHeap(key string, sort Sort) Term {
	t := vc.sc.Decl(key, sort)
	vc.sc.Assume(vc.arrayTyped(key, t), "")
	return t
}

// arrayTyped: in int mode every integer cell of a heap component lies in the
// range of its Go type (quantified over the component's index space).
func (vc *FuncVC) arrayTyped(key string, t Term) Term {
	if vc.enc.Mode != ModeInt {
		return tTrue
	}
	gt, ok := vc.keyGoType[strings.TrimSuffix(key, "@")]
	if !ok {
		return tTrue
	}
	if _, _, isInt := intInfo(gt); !isInt {
		return tTrue
	}
	s := t.Sort
	var vars []string
	cur := t
	depth := 0
	for s.IsArr() {
		ix, el := s.ArrParts()
		name := fmt.Sprintf("q?%d_%d", vc.sc.n, depth)
		vars = append(vars, fmt.Sprintf("(%s %s)", name, ix))
		cur = mkSelect(cur, Term{name, ix})
		s = el
		depth++
	}
	vc.sc.n++
	if s != SInt {
		return tTrue
	}
	rng := vc.enc.typeRange(cur, gt)
	if len(vars) == 0 {
		return rng
	}
	return Term{fmt.Sprintf("(forall (%s) (! %s :pattern (%s)))", strings.Join(vars, " "), rng.S, cur.S), SBool}
}

func (vc *FuncVC) heapSet(st *State, key string, t Term) {
	if _, ok := vc.entrySorts[key]; !ok {
		vc.entrySorts[key] = t.Sort
	}
	st.Heap[key] = t
}

func elemKey(t types.Type) string {
	if w, signed, ok := intInfo(t); ok {
		if _, isNamed := t.(*types.Named); !isNamed {
			if signed {
				return fmt.Sprintf("i%d", w)
			}
			return fmt.Sprintf("u%d", w)
		}
	}
	if isString(t) {
		return "string"
	}
	return typeKey(t)
}

func (vc *FuncVC) fieldKey(st types.Type, f int, leaf string) string {
	return "H|" + typeKey(st) + "|" + st.Underlying().(*types.Struct).Field(f).Name() + "|" + leaf
}

func (vc *FuncVC) memKey(elem types.Type, leaf string) string {
	return "M|" + elemKey(elem) + "|" + leaf
}

func (vc *FuncVC) cellKey(t types.Type, leaf string) string {
	return "C|" + elemKey(t) + "|" + leaf
}

// subRef returns the reference of the sub-object for aggregate field f of
// struct type st at object r.
func (vc *FuncVC) subRef(st types.Type, f int, r Term) Term {
	name := sanitize("sub_" + typeKey(st) + "_" + st.Underlying().(*types.Struct).Field(f).Name())
	if !vc.subFuncs[name] {
		vc.subFuncs[name] = true
		vc.extraDecls = append(vc.extraDecls, fmt.Sprintf("(declare-fun %s (Int) Int)", name))
		tag := len(vc.subFuncs)
		vc.extraDecls = append(vc.extraDecls, fmt.Sprintf("(define-fun tag_%s () Int %d)", name, tag))
		vc.extraDecls = append(vc.extraDecls, fmt.Sprintf("(assert (forall ((r Int)) (! (and (= (reftag (%s r)) tag_%s) (= (refowner (%s r)) r) (= (refroot (%s r)) (refroot r)) (=> (not (= r 0)) (> (%s r) 0))) :pattern ((%s r)))))", name, name, name, name, name, name))
	}
	t := app(SInt, name, r) // canonical term: the same sub-object has the same text everywhere
	if pos, ok := vc.freshRefs[r.S]; ok {
		vc.freshRefs[t.S] = pos
	}
	if strings.Contains(r.S, "?") {
		return t
	}
	// instantiated axioms: positive, tagged, owner recoverable
	vc.sc.Assume(mkImplies(mkNot(mkEq(r, intLit64(0))), mkAnd(
		app(SBool, ">", t, intLit64(0)),
		mkEq(app(SInt, "reftag", t), Term{"tag_" + name, SInt}),
		mkEq(app(SInt, "refowner", t), r),
		mkEq(app(SInt, "refroot", t), app(SInt, "refroot", r)))), "sub-object axioms")
	return t
}

func (vc *FuncVC) elemRef(base, idx Term) Term {
	ix := idx
	if vc.enc.Mode == ModeBV {
		ix = app(SInt, "bv2nat", idx)
	}
	t := app(SInt, "elemref", base, ix)
	if ti, ok := vc.tables[base.S]; ok && ti.level+1 < len(ti.data.dims) {
		sub := &tableInfo{term: mkSelect(ti.term, idx), data: ti.data, level: ti.level + 1, offset: -1}
		if c, ok := termConst(idx); ok && ti.offset >= 0 {
			sub.offset = ti.offset + c.Int64()*ti.data.dims[ti.level+1]
		}
		vc.tables[t.S] = sub
	}
	if pos, ok := vc.freshRefs[base.S]; ok {
		vc.freshRefs[t.S] = pos
	}
	if strings.Contains(t.S, "?") {
		return t
	}
	vc.sc.Assume(mkImplies(mkNot(mkEq(base, intLit64(0))), mkAnd(
		app(SBool, ">", t, intLit64(0)),
		mkEq(app(SInt, "reftag", t), intLit64(-1)),
		mkEq(app(SInt, "refowner", t), base),
		mkEq(app(SInt, "refindex", t), ix),
		mkEq(app(SInt, "refroot", t), app(SInt, "refroot", base)))), "element-object axioms")
	return t
}

// loadFlat reads a flat value from a location.
func (vc *FuncVC) loadFlat(st *State, lv *LV, t types.Type) *FV {
	enc := vc.enc
	ls := enc.Leaves(t)
	fv := &FV{T: t}
	vc.noteKeyType(lv, t)
	for _, l := range ls {
		var x Term
		switch lv.Kind {
		case LField:
			arr := vc.heapGet(st, "H|"+lv.Key+"|"+l.Name, SArr(SInt, l.Sort))
			x = mkSelect(arr, lv.Ref)
		case LElem:
			arr := vc.heapGet(st, "M|"+lv.Key+"|"+l.Name, SArr(SInt, SArr(enc.Idx(), l.Sort)))
			x = mkSelect(mkSelect(arr, lv.Ref), lv.Idx)
		case LCell:
			arr := vc.heapGet(st, "C|"+lv.Key+"|"+l.Name, SArr(SInt, l.Sort))
			x = mkSelect(arr, lv.Ref)
		case LTable:
			x = mkSelect(lv.Ref, lv.Idx)
		case LGlobal:
			x = vc.heapGet(st, "G|"+lv.Key+"|"+l.Name, l.Sort)
			vc.globalFacts(lv.Key, t)
		default:
			panic("loadFlat: bad location kind")
		}
		fv.L = append(fv.L, x)
	}
	return fv
}

func (vc *FuncVC) storeFlat(st *State, lv *LV, v *FV) {
	enc := vc.enc
	ls := enc.Leaves(v.T)
	if len(ls) != len(v.L) {
		panic(fmt.Sprintf("storeFlat: leaf mismatch for %s", v.T))
	}
	vc.noteKeyType(lv, v.T)
	for i, l := range ls {
		switch lv.Kind {
		case LField:
			key := "H|" + lv.Key + "|" + l.Name
			arr := vc.heapGet(st, key, SArr(SInt, l.Sort))
			nv := vc.sc.Def(key, mkStore(arr, lv.Ref, v.L[i]))
			vc.prov[nv.S] = provInfo{kind: 0, parent: arr.S, ref: lv.Ref}
			vc.heapSet(st, key, nv)
		case LElem:
			key := "M|" + lv.Key + "|" + l.Name
			arr := vc.heapGet(st, key, SArr(SInt, SArr(enc.Idx(), l.Sort)))
			inner := mkStore(mkSelect(arr, lv.Ref), lv.Idx, v.L[i])
			nv := vc.sc.Def(key, mkStore(arr, lv.Ref, inner))
			vc.prov[nv.S] = provInfo{kind: 0, parent: arr.S, ref: lv.Ref}
			vc.heapSet(st, key, nv)
		case LCell:
			key := "C|" + lv.Key + "|" + l.Name
			arr := vc.heapGet(st, key, SArr(SInt, l.Sort))
			nv := vc.sc.Def(key, mkStore(arr, lv.Ref, v.L[i]))
			vc.prov[nv.S] = provInfo{kind: 0, parent: arr.S, ref: lv.Ref}
			vc.heapSet(st, key, nv)
		case LTable:
			vc.unsupportedf("store into an immutable global table")
		case LGlobal:
			key := "G|" + lv.Key + "|" + l.Name
			vc.heapGet(st, key, l.Sort)
			vc.heapSet(st, key, v.L[i])
		default:
			panic("storeFlat: bad location kind")
		}
	}
}

func (vc *FuncVC) noteKeyType(lv *LV, t types.Type) {
	if len(vc.enc.Leaves(t)) != 1 || lv.Kind == LTable {
		return
	}
	var key string
	switch lv.Kind {
	case LField:
		key = "H|" + lv.Key + "|v"
	case LElem:
		key = "M|" + lv.Key + "|v"
	case LCell:
		key = "C|" + lv.Key + "|v"
	case LGlobal:
		key = "G|" + lv.Key + "|v"
	}
	if vc.keyGoType == nil {
		vc.keyGoType = map[string]types.Type{}
	}
	if _, ok := vc.keyGoType[key]; !ok {
		vc.keyGoType[key] = t
	}
}

// wellTyped returns the type invariant of a flat value that originates outside
// (parameter, load, call result, havoc).
func (vc *FuncVC) wellTyped(v Val, st *State) Term {
	enc := vc.enc
	switch x := v.(type) {
	case *FV:
		switch x.T.Underlying().(type) {
		case *types.Slice:
			// a slice that exists fits in the 47-bit user address space of amd64
			// (a request is refused by runtime.makeslice above maxAlloc = 2^48)
			big62 := enc.idxLit(maxAllocElems(x.T.Underlying().(*types.Slice).Elem()) / 2)
			return mkAnd(
				enc.idxLe(enc.idxLit(0), x.Off()), enc.idxLe(x.Off(), big62),
				enc.idxLe(enc.idxLit(0), x.Len()), enc.idxLe(x.Len(), x.Cap()), enc.idxLe(x.Cap(), big62),
				app(SBool, ">=", x.Base(), intLit64(0)),
				mkImplies(mkEq(x.Base(), intLit64(0)), mkEq(x.Cap(), enc.idxLit(0))))
		case *types.Pointer, *types.Map, *types.Chan, *types.Signature:
			return app(SBool, ">=", x.L[0], intLit64(0))
		case *types.Interface:
			return mkAnd(app(SBool, ">=", x.L[0], intLit64(0)), mkImplies(mkEq(x.L[0], intLit64(0)), mkEq(x.L[1], intLit64(0))))
		case *types.Basic:
			if isString(x.T) {
				big62 := enc.idxLit(1 << 47)
				return mkAnd(enc.idxLe(enc.idxLit(0), x.Off()), enc.idxLe(x.Off(), big62),
					enc.idxLe(enc.idxLit(0), x.Len()), enc.idxLe(x.Len(), big62))
			}
			if len(x.L) == 1 && x.L[0].Sort == SInt {
				return enc.typeRange(x.L[0], x.T)
			}
		}
		return tTrue
	case *SV:
		var cs []Term
		for _, f := range x.F {
			cs = append(cs, vc.wellTyped(f, st))
		}
		return mkAnd(cs...)
	case *TV:
		var cs []Term
		for _, f := range x.E {
			cs = append(cs, vc.wellTyped(f, st))
		}
		return mkAnd(cs...)
	}
	return tTrue
}

// ptrAllocated: pointers read from memory or passed in are below the allocation
// counter (the heap is closed).
func (vc *FuncVC) ptrAllocated(v Val, st *State) Term {
	if x, ok := v.(*FV); ok {
		switch x.T.Underlying().(type) {
		case *types.Pointer:
			return app(SBool, "<", app(SInt, "refroot", x.L[0]), st.Alloc)
		case *types.Slice:
			return app(SBool, "<", app(SInt, "refroot", x.L[0]), st.Alloc)
		}
	}
	return tTrue
}

// globalFacts: package-level error variables that are initialised once with
// errors.New / fmt.Errorf and never reassigned are non-nil and pairwise distinct.
func (vc *FuncVC) globalFacts(name string, t types.Type) {
	if vc.globalDone == nil {
		vc.globalDone = map[string]bool{}
	}
	if vc.globalDone[name] {
		return
	}
	vc.globalDone[name] = true
	if _, isIface := t.Underlying().(*types.Interface); !isIface {
		return
	}
	id, ok := vc.prog.errGlobals[name]
	if !ok || !vc.prog.immutable[name] {
		return
	}
	typ := vc.entry["G|"+name+"|typ"]
	val := vc.heapGet(vc.entryState, "G|"+name+"|val", SInt)
	vc.sc.AssumeP(mkAnd(mkEq(typ, intLit64(1000000)), mkEq(val, intLit64(int64(1000000+id)))), "package-level error value "+name+" is non-nil and distinct from the others")
}

// globalRef is the fixed object reference of a package-level aggregate.
func (vc *FuncVC) globalRef(name string) Term {
	if t, ok := vc.globalRefs[name]; ok {
		return t
	}
	t := vc.sc.DeclP("global_"+name, SInt)
	vc.sc.AssumeP(mkAnd(app(SBool, ">", t, intLit64(0)), mkEq(app(SInt, "reftag", t), intLit64(-3)), mkEq(app(SInt, "refroot", t), t), app(SBool, "<", t, vc.entryState.Alloc)), "global object")
	vc.globalRefs[name] = t
	if td := vc.prog.GlobalTable(name); td != nil {
		vc.makeTable(name, t, td)
	}
	return t
}

type tableInfo struct {
	term   Term // SMT array (of arrays) holding the remaining dimensions
	data   *tableData
	level  int   // how many dimensions have been indexed away
	offset int64 // flattened offset of this sub-table, -1 if an index was symbolic
}

// makeTable declares the constant contents of an immutable global array as a
// persistent SMT array, separate from the mutable heap.
func (vc *FuncVC) makeTable(name string, ref Term, td *tableData) {
	enc := vc.enc
	es := enc.scalarSort(td.elem)
	rowSort := SArr(enc.Idx(), es)
	lit := func(v *bigInt) Term { return enc.constInt(v, td.elem) }
	row := func(base int64, n int64) Term {
		t := enc.zeroTerm(rowSort)
		for i := int64(0); i < n; i++ {
			if td.vals[base+i].Sign() != 0 {
				t = mkStore(t, enc.idxLit(i), lit(td.vals[base+i]))
			}
		}
		return t
	}
	var sort Sort
	var content Term
	if len(td.dims) == 1 {
		sort = rowSort
		content = row(0, td.dims[0])
	} else {
		sort = SArr(enc.Idx(), rowSort)
		content = enc.zeroTerm(sort)
		for i := int64(0); i < td.dims[0]; i++ {
			content = mkStore(content, enc.idxLit(i), row(i*td.dims[1], td.dims[1]))
		}
	}
	tt := vc.sc.DeclP("table_"+name, sort)
	vc.sc.AssumeP(mkEq(tt, content), "constant contents of "+name+" (evaluated from its initialiser)")
	if vc.tables == nil {
		vc.tables = map[string]*tableInfo{}
	}
	vc.tables[ref.S] = &tableInfo{term: tt, data: td}
}

// freshVal declares a fresh value of type t (havoc) and assumes its type invariant.
func (vc *FuncVC) freshVal(hint string, t types.Type, st *State) Val {
	v := vc.freshValNoAssume(hint, t)
	vc.sc.Assume(vc.wellTyped(v, st), "type invariant of "+hint)
	vc.sc.Assume(vc.ptrAllocated(v, st), "")
	return v
}

func (vc *FuncVC) freshValNoAssume(hint string, t types.Type) Val {
	enc := vc.enc
	switch u := t.Underlying().(type) {
	case *types.Struct:
		sv := &SV{T: t}
		for i := 0; i < u.NumFields(); i++ {
			sv.F = append(sv.F, vc.freshValNoAssume(hint+"."+u.Field(i).Name(), u.Field(i).Type()))
		}
		return sv
	case *types.Array:
		ls, ok := enc.arrayLeafSorts(t)
		if !ok {
			vc.unsupportedf("array value with aggregate elements: %s", t)
		}
		_ = u
		av := &AV{T: t}
		for _, srt := range ls {
			av.L = append(av.L, vc.sc.Decl(hint, srt))
		}
		return av
	case *types.Tuple:
		tv := &TV{T: t}
		for i := 0; i < u.Len(); i++ {
			tv.E = append(tv.E, vc.freshValNoAssume(fmt.Sprintf("%s.%d", hint, i), u.At(i).Type()))
		}
		return tv
	}
	fv := &FV{T: t}
	for _, l := range enc.Leaves(t) {
		fv.L = append(fv.L, vc.sc.Decl(hint+"."+l.Name, l.Sort))
	}
	return fv
}

// loadObj gathers an aggregate value from the object at ref.
func (vc *FuncVC) loadObj(st *State, ref Term, t types.Type) Val {
	enc := vc.enc
	switch u := t.Underlying().(type) {
	case *types.Struct:
		sv := &SV{T: t}
		for i := 0; i < u.NumFields(); i++ {
			ft := u.Field(i).Type()
			if isAggregate(ft) {
				sv.F = append(sv.F, vc.loadObj(st, vc.subRef(t, i, ref), ft))
			} else {
				lv := &LV{Kind: LField, Key: typeKey(t) + "|" + u.Field(i).Name(), Ref: ref}
				sv.F = append(sv.F, vc.loadFlat(st, lv, ft))
			}
		}
		return sv
	case *types.Array:
		if _, isSt := u.Elem().Underlying().(*types.Struct); isSt {
			zv, _ := enc.zeroVal(t).(*AV)
			if zv == nil {
				vc.unsupportedf("load of array with aggregate elements: %s", t)
			}
			cur := zv
			for i := int64(0); i < u.Len(); i++ {
				ev := vc.loadObj(st, vc.elemRef(ref, enc.idxLit(i)), u.Elem())
				cur = enc.setElemOfAV(cur, enc.idxLit(i), ev, func(t Term) Term { return t })
			}
			out := &AV{T: t}
			for _, l := range cur.L {
				out.L = append(out.L, vc.sc.Def("arrs", l))
			}
			return out
		}
		if isAggregate(u.Elem()) {
			inner, ok := u.Elem().Underlying().(*types.Array)
			if !ok || u.Len() > 16 || isAggregate(inner.Elem()) {
				vc.unsupportedf("load of array with aggregate elements: %s", t)
			}
			av := &AV{T: t}
			for _, l := range enc.Leaves(inner.Elem()) {
				arr := vc.heapGet(st, vc.memKey(inner.Elem(), l.Name), SArr(SInt, SArr(enc.Idx(), l.Sort)))
				cur := enc.zeroTerm(SArr(enc.Idx(), SArr(enc.Idx(), l.Sort)))
				for i := int64(0); i < u.Len(); i++ {
					cur = mkStore(cur, enc.idxLit(i), mkSelect(arr, vc.elemRef(ref, enc.idxLit(i))))
				}
				av.L = append(av.L, vc.sc.Def("arr2d", cur))
			}
			return av
		}
		av := &AV{T: t}
		for _, l := range enc.Leaves(u.Elem()) {
			arr := vc.heapGet(st, vc.memKey(u.Elem(), l.Name), SArr(SInt, SArr(enc.Idx(), l.Sort)))
			av.L = append(av.L, mkSelect(arr, ref))
		}
		return av
	}
	panic("loadObj on flat type")
}

func (vc *FuncVC) storeObj(st *State, ref Term, v Val) {
	enc := vc.enc
	switch x := v.(type) {
	case *SV:
		u := x.T.Underlying().(*types.Struct)
		for i := 0; i < u.NumFields(); i++ {
			ft := u.Field(i).Type()
			if isAggregate(ft) {
				vc.storeObj(st, vc.subRef(x.T, i, ref), x.F[i])
			} else {
				lv := &LV{Kind: LField, Key: typeKey(x.T) + "|" + u.Field(i).Name(), Ref: ref}
				vc.storeFlat(st, lv, x.F[i].(*FV))
			}
		}
	case *AV:
		u := x.T.Underlying().(*types.Array)
		if _, isSt := u.Elem().Underlying().(*types.Struct); isSt {
			for i := int64(0); i < u.Len(); i++ {
				vc.storeObj(st, vc.elemRef(ref, enc.idxLit(i)), enc.elemOfAV(x, enc.idxLit(i)))
			}
			return
		}
		if inner, ok := u.Elem().Underlying().(*types.Array); ok {
			for li, l := range enc.Leaves(inner.Elem()) {
				key := vc.memKey(inner.Elem(), l.Name)
				for i := int64(0); i < u.Len(); i++ {
					arr := vc.heapGet(st, key, SArr(SInt, SArr(enc.Idx(), l.Sort)))
					er := vc.elemRef(ref, enc.idxLit(i))
					nv := vc.sc.Def(key, mkStore(arr, er, mkSelect(x.L[li], enc.idxLit(i))))
					vc.prov[nv.S] = provInfo{kind: 0, parent: arr.S, ref: er}
					vc.heapSet(st, key, nv)
				}
			}
			return
		}
		for i, l := range enc.Leaves(u.Elem()) {
			key := vc.memKey(u.Elem(), l.Name)
			arr := vc.heapGet(st, key, SArr(SInt, SArr(enc.Idx(), l.Sort)))
			nv := vc.sc.Def(key, mkStore(arr, ref, x.L[i]))
			vc.prov[nv.S] = provInfo{kind: 0, parent: arr.S, ref: ref}
			vc.heapSet(st, key, nv)
		}
	default:
		panic("storeObj on flat value")
	}
}

// assumeZeroObj states that the freshly allocated object at ref holds zero values.
func (vc *FuncVC) assumeZeroObj(st *State, ref Term, t types.Type) {
	enc := vc.enc
	switch u := t.Underlying().(type) {
	case *types.Struct:
		for i := 0; i < u.NumFields(); i++ {
			ft := u.Field(i).Type()
			if isAggregate(ft) {
				vc.assumeZeroObj(st, vc.subRef(t, i, ref), ft)
			} else {
				lv := &LV{Kind: LField, Key: typeKey(t) + "|" + u.Field(i).Name(), Ref: ref}
				got := vc.loadFlat(st, lv, ft)
				z := enc.zeroFlat(ft)
				for j := range got.L {
					vc.sc.Assume(mkEq(got.L[j], z.L[j]), "fresh object is zeroed")
				}
			}
		}
	case *types.Array:
		if isAggregate(u.Elem()) {
			// elements are sub-objects; zero each one only for small arrays
			if u.Len() > 16 {
				vc.note("zero-initialisation of %s elements not modelled (array of aggregates longer than 16)", t)
				return
			}
			for i := int64(0); i < u.Len(); i++ {
				vc.assumeZeroObj(st, vc.elemRef(ref, enc.idxLit(i)), u.Elem())
			}
			return
		}
		for _, l := range enc.Leaves(u.Elem()) {
			arr := vc.heapGet(st, vc.memKey(u.Elem(), l.Name), SArr(SInt, SArr(enc.Idx(), l.Sort)))
			vc.sc.Assume(mkEq(mkSelect(arr, ref), enc.zeroTerm(SArr(enc.Idx(), l.Sort))), "fresh array is zeroed")
		}
	default:
		lv := &LV{Kind: LCell, Key: elemKey(t), Ref: ref}
		got := vc.loadFlat(st, lv, t)
		z := enc.zeroFlat(t)
		for j := range got.L {
			vc.sc.Assume(mkEq(got.L[j], z.L[j]), "fresh cell is zeroed")
		}
	}
}

func (vc *FuncVC) newRef(st *State, hint string) Term {
	r := vc.sc.Def(hint, st.Alloc)
	if vc.freshRefs == nil {
		vc.freshRefs = map[string]int{}
	}
	vc.freshRefs[r.S] = vc.sc.Pos()
	st.Alloc = vc.sc.Def("alloc", app(SInt, "+", st.Alloc, intLit64(1)))
	vc.sc.Assume(mkAnd(mkEq(app(SInt, "reftag", r), intLit64(0)), mkEq(app(SInt, "refroot", r), r)), "fresh refs are untagged roots")
	return r
}

// ---------- obligations ----------

func (fr *Frame) oblige(kind string, reach Term, cond Term, desc string) {
	vc := fr.vc
	goal := mkImplies(reach, cond)
	if goal.IsTrue() {
		return
	}
	vc.counters[fr.prefix+kind]++
	name := fmt.Sprintf("%s#%s%s.%d", vc.funcName(), fr.prefix, kind, vc.counters[fr.prefix+kind])
	src := ""
	if fr.curInstr != nil && fr.curInstr.Pos().IsValid() {
		p := vc.prog.fset.Position(fr.curInstr.Pos())
		src = fmt.Sprintf("%s:%d", shortPath(p.Filename), p.Line)
	}
	vc.obls = append(vc.obls, &Obligation{Name: name, Kind: kind, Func: vc.funcName(), Pos: vc.sc.Pos(), Goal: goal, Script: vc.sc, Src: src, Desc: desc, VC: vc})
	// assert-then-assume: execution continues past this point only if the
	// check held, so later obligations may rely on it (a failure is reported
	// once, here, instead of cascading)
	vc.sc.Assume(goal, "checked above ("+name+")")
}

// obligeParts emits one obligation per conjunct of the clause.
func (fr *Frame) obligeParts(name, kind string, reach Term, env *SpecEnv, c Clause) {
	parts := env.BoolParts(c.Expr)
	if len(parts) == 1 {
		fr.obligeNamed(name, kind, reach, parts[0], c.Src, c.Line)
		return
	}
	for i, p := range parts {
		fr.obligeNamed(fmt.Sprintf("%s.%d", name, i+1), kind, reach, p, fmt.Sprintf("conjunct %d of: %s", i+1, c.Src), c.Line)
	}
}

func (fr *Frame) obligeNamed(name, kind string, reach Term, cond Term, desc string, line int) {
	vc := fr.vc
	goal := mkImplies(reach, cond)
	if goal.IsTrue() {
		// still record it as a trivially discharged obligation? No: keep counts honest.
		return
	}
	full := fmt.Sprintf("%s#%s%s", vc.funcName(), fr.prefix, name)
	src := ""
	if line > 0 && fr.cf != nil {
		src = fmt.Sprintf("%s:%d", shortPath(fr.cf.Path), line)
	}
	vc.obls = append(vc.obls, &Obligation{Name: full, Kind: kind, Func: vc.funcName(), Pos: vc.sc.Pos(), Goal: goal, Script: vc.sc, Src: src, Desc: desc, VC: vc})
	if kind == "call-pre" || kind == "call-assert" {
		vc.sc.Assume(goal, "checked above ("+full+")")
	}
}

func shortPath(p string) string {
	return strings.TrimPrefix(p, "/repo/")
}

func (vc *FuncVC) funcName() string {
	if vc.fn == nil {
		return vc.lemmaName
	}
	return funcKeyQualified(vc.fn)
}

// funcKey is the contract key of a function: "(*T).Name", "(T).Name" or "Name".
func funcKey(fn *ssa.Function) string {
	if fn.Signature.Recv() != nil {
		rt := fn.Signature.Recv().Type()
		if p, ok := rt.(*types.Pointer); ok {
			return "(*" + typeNameOnly(p.Elem()) + ")." + fn.Name()
		}
		return "(" + typeNameOnly(rt) + ")." + fn.Name()
	}
	if fn.Parent() != nil {
		return funcKey(fn.Parent()) + "$" + strings.TrimPrefix(fn.Name(), fn.Parent().Name()+"$")
	}
	return fn.Name()
}

func typeNameOnly(t types.Type) string {
	if n, ok := t.(*types.Named); ok {
		return n.Obj().Name()
	}
	return typeKey(t)
}

func funcKeyQualified(fn *ssa.Function) string {
	pkg := ""
	if fn.Pkg != nil {
		pkg = fn.Pkg.Pkg.Name() + "."
	} else if fn.Parent() != nil && fn.Parent().Pkg != nil {
		pkg = fn.Parent().Pkg.Pkg.Name() + "."
	}
	return pkg + funcKey(fn)
}

// ---------- values ----------

func (fr *Frame) constVal(c *ssa.Const) Val {
	vc := fr.vc
	enc := vc.enc
	t := c.Type()
	if c.Value == nil {
		// nil or zero value of aggregate
		return enc.zeroVal(t)
	}
	switch c.Value.Kind() {
	case constant.Bool:
		if constant.BoolVal(c.Value) {
			return scalar(t, tTrue)
		}
		return scalar(t, tFalse)
	case constant.Int:
		if _, _, ok := intInfo(t); ok {
			bi, _ := new(bigInt).SetString(c.Value.ExactString(), 10)
			return scalar(t, enc.constInt(bi, t))
		}
		if isFloat(t) {
			return scalar(t, vc.sc.Decl("floatconst", SInt))
		}
	case constant.String:
		return vc.stringLit(constant.StringVal(c.Value), t)
	case constant.Float, constant.Complex:
		return scalar(t, vc.sc.Decl("floatconst", SInt))
	}
	vc.unsupportedf("constant %s of type %s", c, t)
	return nil
}

func (vc *FuncVC) stringLit(s string, t types.Type) *FV {
	enc := vc.enc
	base, ok := vc.strLits[s]
	if !ok {
		base = vc.sc.DeclP("strlit", SInt)
		vc.strLits[s] = base
		vc.sc.AssumeP(app(SBool, ">", base, intLit64(0)), "")
		vc.sc.AssumeP(mkEq(app(SInt, "reftag", base), intLit64(-2)), "string literal")
		if len(s) <= 40 {
			for i := 0; i < len(s); i++ {
				vc.sc.AssumeP(mkEq(mkSelect(mkSelect(vc.strMem(), base), enc.idxLit(int64(i))), vc.byteLit(int64(s[i]))), "")
			}
		}
	}
	return &FV{T: t, L: []Term{base, enc.idxLit(0), enc.idxLit(int64(len(s)))}}
}

func (vc *FuncVC) byteLit(v int64) Term {
	if vc.enc.Mode == ModeBV {
		return bvLit64(v, 8)
	}
	return intLit64(v)
}

func (vc *FuncVC) byteSort() Sort {
	if vc.enc.Mode == ModeBV {
		return SBV(8)
	}
	return SInt
}

func (vc *FuncVC) strMem() Term {
	if t, ok := vc.entry["STR"]; ok {
		return t
	}
	t := vc.sc.DeclP("STR", SArr(SInt, SArr(vc.enc.Idx(), vc.byteSort())))
	vc.entry["STR"] = t
	if vc.enc.Mode == ModeInt {
		vc.sc.AssumeP(Term{fmt.Sprintf("(forall ((r?s Int) (k?s Int)) (! (and (<= 0 (select (select %s r?s) k?s)) (<= (select (select %s r?s) k?s) 255)) :pattern ((select (select %s r?s) k?s))))", t.S, t.S, t.S), SBool}, "string bytes are bytes")
	}
	return t
}

func (fr *Frame) val(v ssa.Value, st *State) Val {
	switch x := v.(type) {
	case *ssa.Const:
		return fr.constVal(x)
	case *ssa.Global:
		elem := x.Type().(*types.Pointer).Elem()
		if isAggregate(elem) {
			return scalar(x.Type(), fr.vc.globalRef(x.Pkg.Pkg.Name()+"."+x.Name()))
		}
		return &LV{T: x.Type(), Kind: LGlobal, Key: x.Pkg.Pkg.Name() + "." + x.Name(), ElemT: elem}
	case *ssa.Function:
		return scalar(x.Type(), fr.vc.funcID(x))
	case *ssa.Builtin:
		fr.vc.unsupportedf("builtin %s used as value", x.Name())
	}
	if r, ok := fr.vals[v]; ok {
		return r
	}
	if fv, ok := v.(*ssa.FreeVar); ok {
		fr.vc.unsupportedf("free variable %s (closure bodies are verified only when inlined)", fv.Name())
	}
	fr.vc.unsupportedf("value %s (%T) not available", v.Name(), v)
	return nil
}

func (vc *FuncVC) funcID(fn *ssa.Function) Term {
	key := fn.String()
	id, ok := vc.funcIDs[key]
	if !ok {
		id = len(vc.funcIDs) + 1
		vc.funcIDs[key] = id
	}
	return intLit64(int64(id))
}

func (vc *FuncVC) typeID(t types.Type) Term {
	key := typeKey(t)
	id, ok := vc.typeIDs[key]
	if !ok {
		id = len(vc.typeIDs) + 1
		vc.typeIDs[key] = id
	}
	return intLit64(int64(id))
}

// ---------- merging ----------

func (vc *FuncVC) mergeVal(c Term, a, b Val, hint string) Val {
	if a == nil {
		return b
	}
	if b == nil {
		return a
	}
	switch x := a.(type) {
	case *FV:
		y, ok := b.(*FV)
		if !ok || len(x.L) != len(y.L) {
			vc.unsupportedf("merge of differently shaped values (%s)", hint)
		}
		out := &FV{T: x.T}
		for i := range x.L {
			out.L = append(out.L, vc.sc.Def(hint, mkIte(c, x.L[i], y.L[i])))
		}
		return out
	case *SV:
		y := b.(*SV)
		out := &SV{T: x.T}
		for i := range x.F {
			out.F = append(out.F, vc.mergeVal(c, x.F[i], y.F[i], hint))
		}
		return out
	case *AV:
		y := b.(*AV)
		out := &AV{T: x.T}
		for i := range x.L {
			out.L = append(out.L, vc.sc.Def(hint, mkIte(c, x.L[i], y.L[i])))
		}
		return out
	case *TV:
		y := b.(*TV)
		out := &TV{T: x.T}
		for i := range x.E {
			out.E = append(out.E, vc.mergeVal(c, x.E[i], y.E[i], hint))
		}
		return out
	case *LV:
		y, ok := b.(*LV)
		if ok && x.Kind == y.Kind && x.Key == y.Key && x.Ref.S == y.Ref.S && x.Idx.S == y.Idx.S {
			return x
		}
		vc.unsupportedf("merge of distinct interior pointers (%s)", hint)
	}
	panic("mergeVal")
}

type inEdge struct {
	reach Term
	st    *State
}

func (vc *FuncVC) mergeStates(edges []inEdge) (*State, Term) {
	if len(edges) == 0 {
		return nil, tFalse
	}
	if len(edges) == 1 {
		return edges[0].st.clone(), edges[0].reach
	}
	var reaches []Term
	for _, e := range edges {
		reaches = append(reaches, e.reach)
	}
	reach := vc.sc.Def("reach", mkOr(reaches...))
	out := edges[len(edges)-1].st.clone()
	for i := len(edges) - 2; i >= 0; i-- {
		e := edges[i]
		// locals
		for a, v := range e.st.Locals {
			if ov, ok := out.Locals[a]; ok {
				if !sameVal(ov, v) {
					out.Locals[a] = vc.mergeVal(e.reach, v, ov, a.Comment)
				}
			} else {
				out.Locals[a] = v
			}
		}
		keys := map[string]bool{}
		for k := range e.st.Heap {
			keys[k] = true
		}
		for k := range out.Heap {
			keys[k] = true
		}
		var ks []string
		for k := range keys {
			ks = append(ks, k)
		}
		sort.Strings(ks)
		for _, k := range ks {
			a := vc.heapGet(e.st, k, vc.entrySorts[k])
			b := vc.heapGet(out, k, vc.entrySorts[k])
			if a.S != b.S {
				nv := vc.sc.Def(k, mkIte(e.reach, a, b))
				vc.prov[nv.S] = provInfo{kind: 1, parent: a.S, other: b.S}
				out.Heap[k] = nv
			}
		}
		if e.st.Alloc.S != out.Alloc.S {
			out.Alloc = vc.sc.Def("alloc", mkIte(e.reach, e.st.Alloc, out.Alloc))
		}
	}
	return out, reach
}

func sameVal(a, b Val) bool {
	switch x := a.(type) {
	case *FV:
		y, ok := b.(*FV)
		if !ok || len(x.L) != len(y.L) {
			return false
		}
		for i := range x.L {
			if x.L[i].S != y.L[i].S {
				return false
			}
		}
		return true
	case *LV:
		y, ok := b.(*LV)
		return ok && x.Kind == y.Kind && x.Key == y.Key && x.Ref.S == y.Ref.S && x.Idx.S == y.Idx.S
	case *AV:
		y, ok := b.(*AV)
		if !ok || len(x.L) != len(y.L) {
			return false
		}
		for i := range x.L {
			if x.L[i].S != y.L[i].S {
				return false
			}
		}
		return true
	case *SV:
		y, ok := b.(*SV)
		if !ok || len(x.F) != len(y.F) {
			return false
		}
		for i := range x.F {
			if !sameVal(x.F[i], y.F[i]) {
				return false
			}
		}
		return true
	case *TV:
		y, ok := b.(*TV)
		if !ok || len(x.E) != len(y.E) {
			return false
		}
		for i := range x.E {
			if !sameVal(x.E[i], y.E[i]) {
				return false
			}
		}
		return true
	}
	return false
}

// ---------- CFG helpers ----------

type loopInfo struct {
	header *ssa.BasicBlock
	body   map[*ssa.BasicBlock]bool
	ord    int
	minPos token.Pos
}

func isBackEdge(p, h *ssa.BasicBlock) bool { return h.Dominates(p) }

func findLoops(fn *ssa.Function) map[*ssa.BasicBlock]*loopInfo {
	loops := map[*ssa.BasicBlock]*loopInfo{}
	for _, b := range fn.Blocks {
		for _, s := range b.Succs {
			if isBackEdge(b, s) {
				li := loops[s]
				if li == nil {
					li = &loopInfo{header: s, body: map[*ssa.BasicBlock]bool{s: true}}
					loops[s] = li
				}
				// natural loop: nodes reaching b without passing through s
				stack := []*ssa.BasicBlock{b}
				for len(stack) > 0 {
					n := stack[len(stack)-1]
					stack = stack[:len(stack)-1]
					if li.body[n] {
						continue
					}
					li.body[n] = true
					stack = append(stack, n.Preds...)
				}
			}
		}
	}
	// ordinal by smallest source position of any instruction in the loop
	var ls []*loopInfo
	for _, li := range loops {
		li.minPos = token.Pos(1 << 40)
		for b := range li.body {
			for _, in := range b.Instrs {
				if p := in.Pos(); p.IsValid() && p < li.minPos {
					li.minPos = p
				}
			}
		}
		ls = append(ls, li)
	}
	sort.Slice(ls, func(i, j int) bool {
		if ls[i].minPos != ls[j].minPos {
			return ls[i].minPos < ls[j].minPos
		}
		// outer loops (larger bodies) first on ties
		if len(ls[i].body) != len(ls[j].body) {
			return len(ls[i].body) > len(ls[j].body)
		}
		return ls[i].header.Index < ls[j].header.Index
	})
	for i, li := range ls {
		li.ord = i + 1
	}
	return loops
}

func rpo(fn *ssa.Function) []*ssa.BasicBlock {
	seen := map[*ssa.BasicBlock]bool{}
	var post []*ssa.BasicBlock
	var dfs func(b *ssa.BasicBlock)
	dfs = func(b *ssa.BasicBlock) {
		seen[b] = true
		// visit successors in reverse so that the first successor comes first in RPO
		for i := len(b.Succs) - 1; i >= 0; i-- {
			s := b.Succs[i]
			if !seen[s] && !isBackEdge(b, s) {
				dfs(s)
			}
		}
		post = append(post, b)
	}
	dfs(fn.Blocks[0])
	for i, j := 0, len(post)-1; i < j; i, j = i+1, j-1 {
		post[i], post[j] = post[j], post[i]
	}
	return post
}


// permitted: may the function write heap component `key` at reference ref?
// Yes if the object was allocated during the call or the modifies clause lists it.
func (vc *FuncVC) permitted(key string, ref Term) Term {
	alts := []Term{app(SBool, ">=", app(SInt, "refroot", ref), vc.entryState.Alloc)}
	if strings.HasPrefix(key, "M|") {
		// the backing store of a nil slice: nothing is there to be written
		alts = append(alts, mkEq(ref, intLit64(0)))
	}
	if m := vc.mods[key]; m != nil {
		if m.all {
			return tTrue
		}
		for _, r := range m.refs {
			alts = append(alts, mkEq(ref, r))
		}
	}
	return mkOr(alts...)
}

// checkWrite emits the write-permission obligation for a store to key at ref.
func (fr *Frame) checkWrite(key string, ref Term, reach Term) {
	vc := fr.vc
	if vc.mods == nil || strings.HasPrefix(key, "G|") {
		return
	}
	fr.oblige("writes", reach, vc.permitted(key, ref), "write to "+key+" is covered by the modifies clause (or goes to an object allocated by this call)")
}

// frameAssume: every location of component key that existed at function entry
// and is outside the modifies clause has the same contents in `now` as in `before`.
func (vc *FuncVC) frameAssume(key string, now, before Term) Term {
	if !now.Sort.IsArr() {
		return tTrue
	}
	name := fmt.Sprintf("r?%d", vc.sc.n)
	vc.sc.n++
	rv := Term{name, SInt}
	conds := []Term{app(SBool, "<", app(SInt, "refroot", rv), vc.entryState.Alloc)}
	if m := vc.mods[key]; m != nil {
		if m.all {
			return tTrue
		}
		for _, r := range m.refs {
			conds = append(conds, mkNot(mkEq(rv, r)))
		}
	}
	body := mkImplies(mkAnd(conds...), mkEq(mkSelect(now, rv), mkSelect(before, rv)))
	return Term{fmt.Sprintf("(forall ((%s Int)) (! %s :pattern ((select %s %s))))", name, body.S, now.S, name), SBool}
}


var amd64Sizes = types.SizesFor("gc", "amd64")

// maxAllocElems: the largest number of elements of type t that one allocation
// can hold on amd64 (maxAlloc = 2^48 bytes).
func maxAllocElems(t types.Type) int64 {
	sz := int64(1)
	func() {
		defer func() { recover() }()
		if n := amd64Sizes.Sizeof(t); n > 1 {
			sz = n
		}
	}()
	return (int64(1) << 48) / sz
}
