package main

// Symbolic values and the memory model.
//
// Flat types (bool, integers, pointers, slices, strings, interfaces, funcs,
// maps, chans) are vectors of SMT terms ("leaves"). Aggregates (structs,
// arrays) always live at an object reference when they are in memory:
//   struct field f of flat type:   H|S|f|leaf : Array Ref leafSort
//   struct field of aggregate type: a sub-object with ref sub_S_f(r)
//   array / slice backing store:   M|E|leaf : Array Ref (Array Idx leafSort)
//   element of aggregate type:     a sub-object with ref elem(base, idx)
//   heap cell of flat type T:      C|T|leaf : Array Ref leafSort
// Aggregate *values* (SSA registers of struct/array type) are trees.

import (
	"fmt"
	"go/token"
	"go/types"
	"math/big"
	"strings"
)

type Mode int

const (
	ModeBV Mode = iota
	ModeInt
)

type Val interface{ valType() types.Type }

// FV: flat value.
type FV struct {
	T types.Type
	L []Term
}

// SV: struct value.
type SV struct {
	T types.Type
	F []Val
}

// AV: array value with flat elements; L[i] is an SMT array Idx -> leaf i.
type AV struct {
	T types.Type
	L []Term
}

// TV: tuple.
type TV struct {
	T types.Type
	E []Val
}

type LocKind int

const (
	LLocal LocKind = iota
	LField
	LElem
	LCell
	LGlobal
	LTable
)

// LV: a location of a flat value (transient pointer value).
type LV struct {
	T     types.Type // pointer type
	Kind  LocKind
	Key   string // local: alloc name key; field: "S|f"; elem: elem type key; cell: type key; global: name
	Ref   Term   // field: object ref; elem: base; cell: ref
	Idx   Term   // elem: index
	ElemT types.Type
	Alloc interface{} // local: the *ssa.Alloc
	Path  []pathElem  // local: path into the aggregate value held in the cell
}

type pathElem struct {
	field int
	idx   Term
	isIdx bool
}

func (v *FV) valType() types.Type { return v.T }
func (v *SV) valType() types.Type { return v.T }
func (v *AV) valType() types.Type { return v.T }
func (v *TV) valType() types.Type { return v.T }
func (v *LV) valType() types.Type { return v.T }

type Leaf struct {
	Name string
	Sort Sort
}

type Enc struct {
	Mode Mode
	// onPow2 is told about every variable shift count encoded through pow2, so
	// that the VC can state pow2's value for counts in [0,64]
	onPow2 func(y Term)
}

func (e *Enc) Idx() Sort {
	if e.Mode == ModeBV {
		return SBV(64)
	}
	return SInt
}

func (e *Enc) idxLit(v int64) Term {
	if e.Mode == ModeBV {
		return bvLit64(v, 64)
	}
	return intLit64(v)
}

func intInfo(t types.Type) (width int, signed bool, ok bool) {
	b, isB := t.Underlying().(*types.Basic)
	if !isB {
		return 0, false, false
	}
	switch b.Kind() {
	case types.Int8:
		return 8, true, true
	case types.Int16:
		return 16, true, true
	case types.Int32:
		return 32, true, true
	case types.Int64, types.Int:
		return 64, true, true
	case types.Uint8:
		return 8, false, true
	case types.Uint16:
		return 16, false, true
	case types.Uint32:
		return 32, false, true
	case types.Uint64, types.Uint, types.Uintptr:
		return 64, false, true
	case types.UntypedInt, types.UntypedRune:
		return 64, true, true
	}
	return 0, false, false
}

func isFloat(t types.Type) bool {
	b, ok := t.Underlying().(*types.Basic)
	return ok && b.Info()&(types.IsFloat|types.IsComplex) != 0
}

func isString(t types.Type) bool {
	b, ok := t.Underlying().(*types.Basic)
	return ok && b.Info()&types.IsString != 0
}

func isBool(t types.Type) bool {
	b, ok := t.Underlying().(*types.Basic)
	return ok && b.Info()&types.IsBoolean != 0
}

func isAggregate(t types.Type) bool {
	switch t.Underlying().(type) {
	case *types.Struct, *types.Array:
		return true
	}
	return false
}

// mathInt is the sentinel type of math(...) ghost integers.
var mathInt = types.NewNamed(types.NewTypeName(0, nil, "mathint", nil), types.Typ[types.Int64], nil)

func isMath(t types.Type) bool { return t == mathInt }

const mathWidth = 128

func (e *Enc) scalarSort(t types.Type) Sort {
	if isMath(t) {
		if e.Mode == ModeBV {
			return SBV(mathWidth)
		}
		return SInt
	}
	if isBool(t) {
		return SBool
	}
	if w, _, ok := intInfo(t); ok {
		if e.Mode == ModeBV {
			return SBV(w)
		}
		return SInt
	}
	return SInt // pointers, floats (opaque), funcs, maps, chans, unsafe.Pointer
}

// Leaves returns the leaf layout of a flat type.
func (e *Enc) Leaves(t types.Type) []Leaf {
	switch u := t.Underlying().(type) {
	case *types.Slice:
		return []Leaf{{"base", SInt}, {"off", e.Idx()}, {"len", e.Idx()}, {"cap", e.Idx()}}
	case *types.Interface:
		return []Leaf{{"typ", SInt}, {"val", SInt}}
	case *types.Basic:
		if u.Info()&types.IsString != 0 {
			return []Leaf{{"base", SInt}, {"off", e.Idx()}, {"len", e.Idx()}}
		}
	}
	return []Leaf{{"v", e.scalarSort(t)}}
}

func typeKey(t types.Type) string {
	return types.TypeString(t, func(p *types.Package) string { return p.Name() })
}

func (e *Enc) zeroTerm(s Sort) Term {
	switch {
	case s == SBool:
		return tFalse
	case s == SInt:
		return intLit64(0)
	case s.IsBV():
		return bvLit64(0, s.Width())
	case s.IsArr():
		_, el := s.ArrParts()
		return Term{fmt.Sprintf("((as const %s) %s)", s, e.zeroTerm(el).S), s}
	}
	panic("zeroTerm: " + string(s))
}

func (e *Enc) zeroFlat(t types.Type) *FV {
	ls := e.Leaves(t)
	fv := &FV{T: t}
	for _, l := range ls {
		fv.L = append(fv.L, e.zeroTerm(l.Sort))
	}
	return fv
}

// zeroVal builds the zero value tree of any type.
func (e *Enc) zeroVal(t types.Type) Val {
	switch u := t.Underlying().(type) {
	case *types.Struct:
		sv := &SV{T: t}
		for i := 0; i < u.NumFields(); i++ {
			sv.F = append(sv.F, e.zeroVal(u.Field(i).Type()))
		}
		return sv
	case *types.Array:
		ls, ok := e.arrayLeafSorts(t)
		if !ok {
			return nil // unsupported as a register value
		}
		av := &AV{T: t}
		for _, s := range ls {
			av.L = append(av.L, e.zeroTerm(s))
		}
		return av
	case *types.Tuple:
		tv := &TV{T: t}
		for i := 0; i < u.Len(); i++ {
			tv.E = append(tv.E, e.zeroVal(u.At(i).Type()))
		}
		return tv
	}
	return e.zeroFlat(t)
}

func scalar(t types.Type, x Term) *FV { return &FV{T: t, L: []Term{x}} }

func (v *FV) Term() Term {
	if len(v.L) != 1 {
		panic(fmt.Sprintf("Term() on %d-leaf value of type %s", len(v.L), v.T))
	}
	return v.L[0]
}

// slice accessors
func (v *FV) Base() Term { return v.L[0] }
func (v *FV) Off() Term  { return v.L[1] }
func (v *FV) Len() Term  { return v.L[2] }
func (v *FV) Cap() Term {
	if len(v.L) > 3 {
		return v.L[3]
	}
	return v.L[2]
}

func (e *Enc) constInt(v *big.Int, t types.Type) Term {
	s := e.scalarSort(t)
	if s.IsBV() {
		return bvLit(v, s.Width())
	}
	return intLit(v)
}

// typeRange returns the in-range predicate for an Int-sorted value of Go type t
// (mode int only).
func (e *Enc) typeRange(x Term, t types.Type) Term {
	if e.Mode != ModeInt {
		return tTrue
	}
	w, signed, ok := intInfo(t)
	if !ok || isMath(t) {
		return tTrue
	}
	lo, hi := typeBounds(w, signed)
	return mkAnd(app(SBool, "<=", intLit(lo), x), app(SBool, "<=", x, intLit(hi)))
}

func typeBounds(w int, signed bool) (*big.Int, *big.Int) {
	one := big.NewInt(1)
	if signed {
		hi := new(big.Int).Lsh(one, uint(w-1))
		lo := new(big.Int).Neg(hi)
		hi.Sub(hi, one)
		return lo, hi
	}
	hi := new(big.Int).Lsh(one, uint(w))
	hi.Sub(hi, one)
	return big.NewInt(0), hi
}

// ---- comparisons and arithmetic, by mode ----

func (e *Enc) lt(x, y Term, signed bool) Term {
	if x.Sort.IsBV() {
		if signed {
			return app(SBool, "bvslt", x, y)
		}
		return app(SBool, "bvult", x, y)
	}
	return app(SBool, "<", x, y)
}

func (e *Enc) le(x, y Term, signed bool) Term {
	if x.Sort.IsBV() {
		if signed {
			return app(SBool, "bvsle", x, y)
		}
		return app(SBool, "bvule", x, y)
	}
	return app(SBool, "<=", x, y)
}

func (e *Enc) add(x, y Term) Term {
	if x.Sort.IsBV() {
		return app(x.Sort, "bvadd", x, y)
	}
	return app(SInt, "+", x, y)
}

func (e *Enc) sub(x, y Term) Term {
	if x.Sort.IsBV() {
		return app(x.Sort, "bvsub", x, y)
	}
	return app(SInt, "-", x, y)
}

func (e *Enc) mul(x, y Term) Term {
	if x.Sort.IsBV() {
		return app(x.Sort, "bvmul", x, y)
	}
	return app(SInt, "*", x, y)
}

// idx helpers (signed 64 / Int)
func (e *Enc) idxLe(x, y Term) Term { return e.le(x, y, true) }
func (e *Enc) idxLt(x, y Term) Term { return e.lt(x, y, true) }

// toIdx converts an integer value of Go type t to the index sort.
func (e *Enc) toIdx(x Term, t types.Type) Term {
	if e.Mode == ModeInt {
		return x
	}
	_, signed, _ := intInfo(t)
	if isMath(t) {
		return bvResize(x, 64, true)
	}
	return bvResize(x, 64, signed)
}

func shortFuncName(s string) string {
	s = strings.ReplaceAll(s, "github.com/google/wuffs/", "")
	return s
}

// ---- more arithmetic ----

func termConst(t Term) (*big.Int, bool) {
	s := t.S
	if strings.HasPrefix(s, "(_ bv") {
		var v string
		var w int
		if _, err := fmt.Sscanf(s, "(_ bv%s %d)", &v, &w); err == nil {
			bi, ok := new(big.Int).SetString(v, 10)
			return bi, ok
		}
		f := strings.Fields(strings.Trim(s, "()"))
		if len(f) == 3 {
			bi, ok := new(big.Int).SetString(strings.TrimPrefix(f[1], "bv"), 10)
			return bi, ok
		}
		return nil, false
	}
	if strings.HasPrefix(s, "(- ") {
		bi, ok := new(big.Int).SetString(strings.TrimSuffix(strings.TrimPrefix(s, "(- "), ")"), 10)
		if ok {
			return bi.Neg(bi), true
		}
		return nil, false
	}
	bi, ok := new(big.Int).SetString(s, 10)
	return bi, ok
}

func (e *Enc) quo(x, y Term, signed bool) Term {
	if x.Sort.IsBV() {
		if signed {
			return app(x.Sort, "bvsdiv", x, y)
		}
		return app(x.Sort, "bvudiv", x, y)
	}
	return app(SInt, "tdiv", x, y)
}

func (e *Enc) rem(x, y Term, signed bool) Term {
	if x.Sort.IsBV() {
		if signed {
			return app(x.Sort, "bvsrem", x, y)
		}
		return app(x.Sort, "bvurem", x, y)
	}
	return app(SInt, "tmod", x, y)
}

func isMask(v *big.Int) (int, bool) {
	// v == 2^k - 1 ?
	if v.Sign() < 0 {
		return 0, false
	}
	p := new(big.Int).Add(v, big.NewInt(1))
	if p.BitLen() > 0 && new(big.Int).And(p, v).Sign() == 0 {
		return p.BitLen() - 1, true
	}
	return 0, false
}

func (e *Enc) bitop(op token.Token, x, y Term, t types.Type) Term {
	if x.Sort.IsBV() {
		switch op {
		case token.AND:
			return app(x.Sort, "bvand", x, y)
		case token.OR:
			return app(x.Sort, "bvor", x, y)
		case token.XOR:
			return app(x.Sort, "bvxor", x, y)
		case token.AND_NOT:
			return app(x.Sort, "bvand", x, app(x.Sort, "bvnot", y))
		}
	}
	// int mode: exact encodings where they stay linear
	w, signed, _ := intInfo(t)
	if isMath(t) {
		w, signed = 0, true
	}
	bit := func(v Term, i int) Term {
		p := intLit(new(big.Int).Lsh(big.NewInt(1), uint(i)))
		return app(SInt, "mod", app(SInt, "div", v, p), intLit64(2))
	}
	pow := func(i int) Term { return intLit(new(big.Int).Lsh(big.NewInt(1), uint(i))) }
	cx, xConst := termConst(x)
	cy, yConst := termConst(y)
	if xConst && !yConst && op != token.AND_NOT {
		x, y, cx, cy, xConst, yConst = y, x, cy, cx, yConst, xConst
	}
	if yConst && cy.Sign() >= 0 {
		switch op {
		case token.AND:
			if k, ok := isMask(cy); ok {
				return app(SInt, "mod", x, pow(k))
			}
			// sum over the set bits of the constant
			if popcount(cy) <= 16 {
				terms := []Term{intLit64(0)}
				for i := 0; i < cy.BitLen(); i++ {
					if cy.Bit(i) == 1 {
						terms = append(terms, app(SInt, "*", bit(x, i), pow(i)))
					}
				}
				return app(SInt, "+", terms...)
			}
		case token.OR:
			if popcount(cy) <= 16 {
				terms := []Term{x}
				for i := 0; i < cy.BitLen(); i++ {
					if cy.Bit(i) == 1 {
						terms = append(terms, app(SInt, "*", app(SInt, "-", intLit64(1), bit(x, i)), pow(i)))
					}
				}
				return app(SInt, "+", terms...)
			}
		case token.XOR:
			if popcount(cy) <= 16 {
				terms := []Term{x}
				for i := 0; i < cy.BitLen(); i++ {
					if cy.Bit(i) == 1 {
						// flipping bit i: +2^i if it was 0, -2^i if it was 1
						terms = append(terms, app(SInt, "*", app(SInt, "-", intLit64(1), app(SInt, "*", intLit64(2), bit(x, i))), pow(i)))
					}
				}
				return app(SInt, "+", terms...)
			}
		case token.AND_NOT:
			if popcount(cy) <= 16 {
				terms := []Term{x}
				for i := 0; i < cy.BitLen(); i++ {
					if cy.Bit(i) == 1 {
						terms = append(terms, app(SInt, "-", app(SInt, "*", bit(x, i), pow(i))))
					}
				}
				return app(SInt, "+", terms...)
			}
		}
	}
	if !signed && w > 0 && w <= 16 && !xConst && !yConst {
		// both variable, narrow type: bit by bit
		terms := []Term{intLit64(0)}
		for i := 0; i < w; i++ {
			bx := mkEq(bit(x, i), intLit64(1))
			by := mkEq(bit(y, i), intLit64(1))
			var c Term
			switch op {
			case token.AND:
				c = mkAnd(bx, by)
			case token.OR:
				c = mkOr(bx, by)
			case token.XOR:
				c = mkNot(mkEq(bx, by))
			case token.AND_NOT:
				c = mkAnd(bx, mkNot(by))
			}
			terms = append(terms, mkIte(c, pow(i), intLit64(0)))
		}
		return app(SInt, "+", terms...)
	}
	switch op {
	case token.AND:
		return app(SInt, "iand", x, y)
	case token.OR:
		return app(SInt, "ior", x, y)
	case token.XOR:
		return app(SInt, "ixor", x, y)
	case token.AND_NOT:
		return app(SInt, "iandnot", x, y)
	}
	panic("bitop")
}

func popcount(v *big.Int) int {
	n := 0
	for i := 0; i < v.BitLen(); i++ {
		if v.Bit(i) == 1 {
			n++
		}
	}
	return n
}

// shift implements Go shift semantics (counts >= width give 0 / sign fill).
func (e *Enc) shift(op token.Token, x, y Term, xsigned, ysigned bool) Term {
	if x.Sort.IsBV() {
		w := x.Sort.Width()
		yw := y.Sort.Width()
		big := app(SBool, "bvuge", y, bvLit64(int64(w), yw))
		yy := bvResize(y, w, false)
		if op == token.SHL {
			return mkIte(big, bvLit64(0, w), app(x.Sort, "bvshl", x, yy))
		}
		if xsigned {
			return mkIte(big, app(x.Sort, "bvashr", x, bvLit64(int64(w-1), w)), app(x.Sort, "bvashr", x, yy))
		}
		return mkIte(big, bvLit64(0, w), app(x.Sort, "bvlshr", x, yy))
	}
	if c, ok := termConst(y); ok && c.Sign() >= 0 && c.BitLen() < 16 {
		p := intLit(new(big.Int).Lsh(big.NewInt(1), uint(c.Int64())))
		if op == token.SHL {
			return app(SInt, "*", x, p)
		}
		return app(SInt, "div", x, p)
	}
	if e.onPow2 != nil {
		e.onPow2(y)
	}
	if op == token.SHL {
		return app(SInt, "*", x, app(SInt, "pow2", y))
	}
	return app(SInt, "div", x, app(SInt, "pow2", y))
}

// convInt converts between integer types in int mode (exact wrap semantics).
func (e *Enc) convInt(x Term, from, to types.Type) Term {
	fw, fs, _ := intInfo(from)
	tw, ts, _ := intInfo(to)
	flo, fhi := typeBounds(fw, fs)
	tlo, thi := typeBounds(tw, ts)
	if flo.Cmp(tlo) >= 0 && fhi.Cmp(thi) <= 0 {
		return x
	}
	m := intLit(new(big.Int).Lsh(big.NewInt(1), uint(tw)))
	if !ts {
		return app(SInt, "mod", x, m)
	}
	h := intLit(new(big.Int).Lsh(big.NewInt(1), uint(tw-1)))
	return app(SInt, "-", app(SInt, "mod", app(SInt, "+", x, h), m), h)
}


// arrayLeafSorts gives the SMT sorts of an array value's leaves: arrays of flat
// elements are 1-D SMT arrays; small arrays of such arrays are 2-D.
func (e *Enc) arrayLeafSorts(t types.Type) ([]Sort, bool) {
	at, ok := t.Underlying().(*types.Array)
	if !ok {
		return nil, false
	}
	if !isAggregate(at.Elem()) {
		var out []Sort
		for _, l := range e.Leaves(at.Elem()) {
			out = append(out, SArr(e.Idx(), l.Sort))
		}
		return out, true
	}
	if inner, ok := at.Elem().Underlying().(*types.Array); ok && at.Len() <= 16 && !isAggregate(inner.Elem()) {
		var out []Sort
		for _, l := range e.Leaves(inner.Elem()) {
			out = append(out, SArr(e.Idx(), SArr(e.Idx(), l.Sort)))
		}
		return out, true
	}
	if st, ok := at.Elem().Underlying().(*types.Struct); ok && at.Len() <= 16 {
		var out []Sort
		for i := 0; i < st.NumFields(); i++ {
			ft := st.Field(i).Type()
			if isAggregate(ft) {
				return nil, false
			}
			for _, l := range e.Leaves(ft) {
				out = append(out, SArr(e.Idx(), l.Sort))
			}
		}
		return out, true
	}
	return nil, false
}

// elemOfAV extracts element idx of an array value.
func (e *Enc) elemOfAV(av *AV, idx Term) Val {
	at := av.T.Underlying().(*types.Array)
	switch u := at.Elem().Underlying().(type) {
	case *types.Array:
		inner := &AV{T: at.Elem()}
		for _, l := range av.L {
			inner.L = append(inner.L, mkSelect(l, idx))
		}
		return inner
	case *types.Struct:
		sv := &SV{T: at.Elem()}
		k := 0
		for i := 0; i < u.NumFields(); i++ {
			ft := u.Field(i).Type()
			fv := &FV{T: ft}
			for range e.Leaves(ft) {
				fv.L = append(fv.L, mkSelect(av.L[k], idx))
				k++
			}
			sv.F = append(sv.F, fv)
		}
		return sv
	}
	out := &FV{T: at.Elem()}
	for _, l := range av.L {
		out.L = append(out.L, mkSelect(l, idx))
	}
	return out
}

// setElemOfAV returns the array value with element idx replaced.
func (e *Enc) setElemOfAV(av *AV, idx Term, v Val, def func(Term) Term) *AV {
	out := &AV{T: av.T}
	var leaves []Term
	switch x := v.(type) {
	case *FV:
		leaves = x.L
	case *AV:
		leaves = x.L
	case *SV:
		for _, f := range x.F {
			leaves = append(leaves, f.(*FV).L...)
		}
	}
	if len(leaves) != len(av.L) {
		panic("setElemOfAV: leaf mismatch")
	}
	for i, l := range av.L {
		out.L = append(out.L, def(mkStore(l, idx, leaves[i])))
	}
	return out
}

