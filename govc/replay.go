package main

// Replay of solver counterexamples against the real code.
//
// For obligations whose failure is a run-time panic (index, slice, nil,
// division by zero, explicit panic, failed type assertion, make with a bad
// length) the model's entry state is turned into an in-package Go test that
// calls the real function under recover(). The test is injected with
// `go test -overlay`, so nothing is written into the repository.

import (
	"bytes"
	"context"
	"encoding/json"
	"fmt"
	"go/types"
	"math/big"
	"os"
	"os/exec"
	"path/filepath"
	"strings"
	"time"

	"golang.org/x/tools/go/ssa"
)

const replayElems = 48

type rNode struct {
	kind   string // int bool bytes string ptrstruct ptrarray iface unsupported
	typ    types.Type
	path   string
	term   string   // scalar / nil-test term
	terms  []string // bytes: len, cap; then elems
	fields []*rNode
	names  []string
	reason string
}

// buildReplay records, for every parameter, the SMT terms whose model values
// are needed to rebuild it as a Go value.
func (vc *FuncVC) buildReplay(fn *ssa.Function, params []Val, st *State) {
	var nodes []*rNode
	for i, p := range fn.Params {
		nodes = append(nodes, vc.replayNode("arg_"+p.Name(), p.Type(), params[i], st, 0))
	}
	vc.replayNodes = nodes
	var walk func(n *rNode)
	walk = func(n *rNode) {
		if n.term != "" {
			vc.modelVars = append(vc.modelVars, modelVar{n.path, n.term})
		}
		for i, t := range n.terms {
			vc.modelVars = append(vc.modelVars, modelVar{fmt.Sprintf("%s#%d", n.path, i), t})
		}
		for _, f := range n.fields {
			walk(f)
		}
	}
	for _, n := range nodes {
		walk(n)
	}
}

func isByteLike(t types.Type) bool {
	w, _, ok := intInfo(t)
	return ok && w == 8
}

func (vc *FuncVC) replayNode(path string, t types.Type, v Val, st *State, depth int) *rNode {
	enc := vc.enc
	n := &rNode{typ: t, path: path}
	switch u := t.Underlying().(type) {
	case *types.Basic:
		fv, ok := v.(*FV)
		if !ok {
			n.kind, n.reason = "unsupported", "value shape"
			return n
		}
		switch {
		case u.Info()&types.IsBoolean != 0:
			n.kind, n.term = "bool", fv.L[0].S
		case u.Info()&types.IsInteger != 0:
			n.kind, n.term = "int", fv.L[0].S
		case u.Info()&types.IsString != 0:
			n.kind = "string"
			n.terms = []string{fv.Len().S}
			for k := 0; k < replayElems; k++ {
				n.terms = append(n.terms, mkSelect(mkSelect(vc.strMem(), fv.Base()), enc.add(fv.Off(), enc.idxLit(int64(k)))).S)
			}
		default:
			n.kind, n.reason = "unsupported", "basic type "+t.String()
		}
	case *types.Slice:
		fv, ok := v.(*FV)
		if !ok || !isByteLike(u.Elem()) {
			n.kind, n.reason = "unsupported", "slice of "+u.Elem().String()
			return n
		}
		n.kind = "bytes"
		n.term = fv.Base().S
		n.terms = []string{fv.Len().S, fv.Cap().S}
		arr := vc.heapGet(st, vc.memKey(u.Elem(), "v"), SArr(SInt, SArr(enc.Idx(), enc.scalarSort(u.Elem()))))
		for k := 0; k < replayElems; k++ {
			n.terms = append(n.terms, mkSelect(mkSelect(arr, fv.Base()), enc.add(fv.Off(), enc.idxLit(int64(k)))).S)
		}
	case *types.Pointer:
		fv, ok := v.(*FV)
		if !ok || depth > 2 {
			n.kind, n.reason = "unsupported", "pointer depth"
			return n
		}
		n.term = fv.L[0].S
		switch e := u.Elem().Underlying().(type) {
		case *types.Struct:
			n.kind = "ptrstruct"
			sv, ok := vc.loadObj(st, fv.L[0], u.Elem()).(*SV)
			if !ok {
				n.kind, n.reason = "unsupported", "struct load"
				return n
			}
			for i := 0; i < e.NumFields(); i++ {
				n.names = append(n.names, e.Field(i).Name())
				n.fields = append(n.fields, vc.replayValNode(path+"."+e.Field(i).Name(), e.Field(i).Type(), sv.F[i], st, depth+1))
			}
		case *types.Array:
			if _, _, isInt := intInfo(e.Elem()); !isInt {
				n.kind, n.reason = "unsupported", "pointer to array of "+e.Elem().String()
				return n
			}
			n.kind = "ptrarray"
			arr := vc.heapGet(st, vc.memKey(e.Elem(), "v"), SArr(SInt, SArr(enc.Idx(), enc.scalarSort(e.Elem()))))
			lim := e.Len()
			if lim > 4096 {
				lim = 4096
			}
			for k := int64(0); k < lim; k++ {
				n.terms = append(n.terms, mkSelect(mkSelect(arr, fv.L[0]), enc.idxLit(k)).S)
			}
		default:
			n.kind, n.reason = "unsupported", "pointer to "+u.Elem().String()
		}
	case *types.Interface:
		fv, ok := v.(*FV)
		if !ok {
			n.kind, n.reason = "unsupported", "interface shape"
			return n
		}
		n.kind, n.term = "iface", fv.L[0].S
	default:
		return vc.replayValNode(path, t, v, st, depth)
	}
	return n
}

// replayValNode handles values held inline (struct fields, array values).
func (vc *FuncVC) replayValNode(path string, t types.Type, v Val, st *State, depth int) *rNode {
	enc := vc.enc
	switch u := t.Underlying().(type) {
	case *types.Array:
		n := &rNode{typ: t, path: path}
		av, ok := v.(*AV)
		if _, _, isInt := intInfo(u.Elem()); !ok || !isInt || len(av.L) != 1 {
			n.kind, n.reason = "unsupported", "array of "+u.Elem().String()
			return n
		}
		n.kind = "array"
		lim := u.Len()
		if lim > 4096 {
			lim = 4096
		}
		for k := int64(0); k < lim; k++ {
			n.terms = append(n.terms, mkSelect(av.L[0], enc.idxLit(k)).S)
		}
		return n
	case *types.Struct:
		n := &rNode{typ: t, path: path, kind: "struct"}
		sv, ok := v.(*SV)
		if !ok {
			n.kind, n.reason = "unsupported", "struct shape"
			return n
		}
		for i := 0; i < u.NumFields(); i++ {
			n.names = append(n.names, u.Field(i).Name())
			n.fields = append(n.fields, vc.replayValNode(path+"."+u.Field(i).Name(), u.Field(i).Type(), sv.F[i], st, depth+1))
		}
		return n
	case *types.Basic, *types.Slice, *types.Pointer, *types.Interface:
		return vc.replayNode(path, t, v, st, depth)
	}
	return &rNode{typ: t, path: path, kind: "unsupported", reason: "type " + t.String()}
}

func modelInt(s string) (*big.Int, bool) {
	s = strings.TrimSpace(s)
	switch {
	case strings.HasPrefix(s, "#x"):
		v, ok := new(big.Int).SetString(s[2:], 16)
		return v, ok
	case strings.HasPrefix(s, "#b"):
		v, ok := new(big.Int).SetString(s[2:], 2)
		return v, ok
	case strings.HasPrefix(s, "(_ bv"):
		f := strings.Fields(strings.Trim(s, "()"))
		if len(f) >= 2 {
			v, ok := new(big.Int).SetString(strings.TrimPrefix(f[1], "bv"), 10)
			return v, ok
		}
	case strings.HasPrefix(s, "(-"):
		inner := strings.TrimSpace(strings.TrimSuffix(strings.TrimPrefix(s, "(-"), ")"))
		v, ok := new(big.Int).SetString(inner, 10)
		if ok {
			v.Neg(v)
		}
		return v, ok
	}
	v, ok := new(big.Int).SetString(s, 10)
	return v, ok
}

type replayGen struct {
	model   map[string]string
	imports map[string]bool
	pkg     *types.Package
	err     string
}

func (g *replayGen) typeStr(t types.Type) string {
	return types.TypeString(t, func(p *types.Package) string {
		if p == g.pkg {
			return ""
		}
		g.imports[p.Path()] = true
		return p.Name()
	})
}

func (g *replayGen) intOf(path string, t types.Type) string {
	v, ok := modelInt(g.model[path])
	if !ok {
		g.err = "no model value for " + path
		return "0"
	}
	w, signed, isInt := intInfo(t)
	if isInt {
		// normalise into the type's range (bit-vector models are unsigned)
		m := new(big.Int).Lsh(big.NewInt(1), uint(w))
		v.Mod(v, m)
		if signed && v.Cmp(new(big.Int).Rsh(m, 1)) >= 0 {
			v.Sub(v, m)
		}
	}
	return fmt.Sprintf("%s(%s)", g.typeStr(t), v.String())
}

func (g *replayGen) expr(n *rNode) string {
	switch n.kind {
	case "int":
		return g.intOf(n.path, n.typ)
	case "bool":
		if strings.TrimSpace(g.model[n.path]) == "true" {
			return "true"
		}
		return "false"
	case "bytes", "string":
		ln, ok := modelInt(g.model[n.path+"#0"])
		if !ok || ln.Sign() < 0 || ln.Cmp(big.NewInt(1<<20)) > 0 {
			g.err = "slice length in the model is too large to replay"
			return "nil"
		}
		first := 2
		cp := new(big.Int).Set(ln)
		if n.kind == "string" {
			first = 1
		} else {
			if base, ok := modelInt(g.model[n.path]); ok && base.Sign() == 0 {
				return "nil"
			}
			if c, ok := modelInt(g.model[n.path+"#1"]); ok && c.Cmp(ln) >= 0 && c.Cmp(big.NewInt(1<<20)) <= 0 {
				cp = c
			}
		}
		var elems []string
		for k := 0; k < int(ln.Int64()) && k < replayElems; k++ {
			v, ok := modelInt(g.model[fmt.Sprintf("%s#%d", n.path, first+k)])
			if !ok {
				v = big.NewInt(0)
			}
			elems = append(elems, fmt.Sprintf("%d", new(big.Int).And(v, big.NewInt(255)).Int64()))
		}
		if n.kind == "string" {
			g.imports["strings"] = true
			return fmt.Sprintf("(string([]byte{%s}) + strings.Repeat(\"\\x00\", %d))", strings.Join(elems, ", "), maxI(0, int(ln.Int64())-len(elems)))
		}
		return fmt.Sprintf("func() %s { b := make(%s, %d, %d); copy(b, %s{%s}); return b }()", g.typeStr(n.typ), g.typeStr(n.typ), ln.Int64(), cp.Int64(), g.typeStr(n.typ), strings.Join(elems, ", "))
	case "array":
		var elems []string
		for k := range n.terms {
			v, ok := modelInt(g.model[fmt.Sprintf("%s#%d", n.path, k)])
			if ok && v.Sign() != 0 {
				at := n.typ.Underlying().(*types.Array)
				elems = append(elems, fmt.Sprintf("%d: %s", k, g.normInt(v, at.Elem())))
			}
		}
		return fmt.Sprintf("%s{%s}", g.typeStr(n.typ), strings.Join(elems, ", "))
	case "ptrarray":
		if r, ok := modelInt(g.model[n.path]); ok && r.Sign() == 0 {
			return "nil"
		}
		at := n.typ.Underlying().(*types.Pointer).Elem()
		var elems []string
		for k := range n.terms {
			v, ok := modelInt(g.model[fmt.Sprintf("%s#%d", n.path, k)])
			if ok && v.Sign() != 0 {
				elems = append(elems, fmt.Sprintf("%d: %s", k, g.normInt(v, at.Underlying().(*types.Array).Elem())))
			}
		}
		return fmt.Sprintf("&%s{%s}", g.typeStr(at), strings.Join(elems, ", "))
	case "struct":
		var fs []string
		for i, f := range n.fields {
			if f.kind == "unsupported" || f.kind == "iface" {
				continue
			}
			fs = append(fs, fmt.Sprintf("%s: %s", n.names[i], g.expr(f)))
		}
		return fmt.Sprintf("%s{%s}", g.typeStr(n.typ), strings.Join(fs, ", "))
	case "ptrstruct":
		if r, ok := modelInt(g.model[n.path]); ok && r.Sign() == 0 {
			return "nil"
		}
		var fs []string
		for i, f := range n.fields {
			if f.kind == "unsupported" {
				continue
			}
			if f.kind == "iface" {
				if x := g.ifaceExpr(f); x != "" {
					fs = append(fs, fmt.Sprintf("%s: %s", n.names[i], x))
				}
				continue
			}
			fs = append(fs, fmt.Sprintf("%s: %s", n.names[i], g.expr(f)))
		}
		return fmt.Sprintf("&%s{%s}", g.typeStr(n.typ.Underlying().(*types.Pointer).Elem()), strings.Join(fs, ", "))
	case "iface":
		if x := g.ifaceExpr(n); x != "" {
			return x
		}
		return "nil"
	}
	g.err = "cannot rebuild " + n.path + ": " + n.reason
	return "nil"
}

func (g *replayGen) normInt(v *big.Int, t types.Type) string {
	w, signed, isInt := intInfo(t)
	v = new(big.Int).Set(v)
	if isInt {
		m := new(big.Int).Lsh(big.NewInt(1), uint(w))
		v.Mod(v, m)
		if signed && v.Cmp(new(big.Int).Rsh(m, 1)) >= 0 {
			v.Sub(v, m)
		}
	}
	return v.String()
}

func (g *replayGen) ifaceExpr(n *rNode) string {
	if r, ok := modelInt(g.model[n.path]); ok && r.Sign() == 0 {
		return ""
	}
	switch types.TypeString(n.typ, nil) {
	case "io.Writer":
		g.imports["io"] = true
		return "io.Discard"
	case "io.Reader":
		g.imports["bytes"] = true
		return "bytes.NewReader(nil)"
	case "io.ReadSeeker":
		g.imports["bytes"] = true
		return "bytes.NewReader(make([]byte, 4096))"
	case "error":
		g.imports["errors"] = true
		return "errors.New(\"replay\")"
	}
	g.err = "cannot rebuild interface value " + n.path
	return ""
}

func maxI(a, b int) int {
	if a > b {
		return a
	}
	return b
}

var panicKinds = map[string]bool{"index": true, "slice": true, "nil": true, "divzero": true, "panic": true, "typeassert": true, "makeslice": true, "shift": true}

// tryReplay rebuilds the model's entry state as Go values and runs the real function.
func tryReplay(prog *Prog, o *Obligation, rep map[string]interface{}) (bool, string) {
	vc := o.VC
	if vc == nil || vc.fn == nil || vc.replayNodes == nil {
		return false, "no replay harness for this obligation"
	}
	if !panicKinds[o.Kind] {
		return false, "the solver's model is attached; only run-time panics are replayed against the real code (post-conditions and invariants are not re-evaluated concretely)"
	}
	fn := vc.fn
	if fn.Pkg == nil || fn.Parent() != nil {
		return false, "closures are not replayed"
	}
	model := parseModel(o)
	g := &replayGen{model: model, imports: map[string]bool{"testing": true, "fmt": true}, pkg: fn.Pkg.Pkg}
	var args []string
	for _, n := range vc.replayNodes {
		args = append(args, g.expr(n))
	}
	if g.err != "" {
		return false, "replay not attempted: " + g.err
	}
	call := ""
	if fn.Signature.Recv() != nil {
		call = fmt.Sprintf("(%s).%s(%s)", "recv", fn.Name(), strings.Join(args[1:], ", "))
	} else {
		call = fmt.Sprintf("%s(%s)", fn.Name(), strings.Join(args, ", "))
	}
	var sb strings.Builder
	fmt.Fprintf(&sb, "package %s\n\nimport (\n", fn.Pkg.Pkg.Name())
	for imp := range g.imports {
		fmt.Fprintf(&sb, "\t%q\n", imp)
	}
	sb.WriteString(")\n\n")
	fmt.Fprintf(&sb, "// Replay of the counterexample for obligation %s\n", o.Name)
	sb.WriteString("func TestVerifReplayGovc(t *testing.T) {\n")
	sb.WriteString("\tdefer func() {\n\t\tif r := recover(); r != nil {\n\t\t\tfmt.Println(\"REPLAY-PANIC:\", r)\n\t\t\treturn\n\t\t}\n\t\tfmt.Println(\"REPLAY-RETURNED\")\n\t}()\n")
	if fn.Signature.Recv() != nil {
		fmt.Fprintf(&sb, "\trecv := %s\n", args[0])
	}
	if fn.Signature.Results().Len() > 0 {
		blanks := make([]string, fn.Signature.Results().Len())
		for i := range blanks {
			blanks[i] = "_"
		}
		fmt.Fprintf(&sb, "\t%s = %s\n", strings.Join(blanks, ", "), call)
	} else {
		fmt.Fprintf(&sb, "\t%s\n", call)
	}
	sb.WriteString("}\n")
	src := sb.String()
	rep["replay_test"] = src

	dir, err := os.MkdirTemp("", "govc-replay")
	if err != nil {
		return false, err.Error()
	}
	defer os.RemoveAll(dir)
	testFile := filepath.Join(dir, "zz_verif_replay_test.go")
	os.WriteFile(testFile, []byte(src), 0o644)
	pkgDir := filepath.Join(prog.repo, strings.TrimPrefix(fn.Pkg.Pkg.Path(), modulePath+"/"))
	ov := map[string]map[string]string{"Replace": {filepath.Join(pkgDir, "zz_verif_replay_test.go"): testFile}}
	ovb, _ := json.Marshal(ov)
	ovFile := filepath.Join(dir, "overlay.json")
	os.WriteFile(ovFile, ovb, 0o644)
	ctx, cancel := context.WithTimeout(context.Background(), 120*time.Second)
	defer cancel()
	cmd := exec.CommandContext(ctx, "sh", "-c", fmt.Sprintf("ulimit -v 8000000; cd %s && go test -overlay %s -vet=off -timeout 60s -count=1 -run TestVerifReplayGovc -v .", pkgDir, ovFile))
	cmd.Env = goEnv()
	var out bytes.Buffer
	cmd.Stdout, cmd.Stderr = &out, &out
	cmd.Run()
	text := out.String()
	rep["replay_output"] = truncate(text, 3000)
	switch {
	case strings.Contains(text, "REPLAY-PANIC:"):
		i := strings.Index(text, "REPLAY-PANIC:")
		line := strings.SplitN(text[i:], "\n", 2)[0]
		return true, "reproduced on the real code: " + line
	case strings.Contains(text, "REPLAY-RETURNED"):
		return false, "the real function returned normally on the model's entry state (the model is of an intermediate state, or depends on abstracted callees)"
	}
	return false, "replay test did not run to completion (see replay_output)"
}
