package main

import (
	"bytes"
	"context"
	"fmt"
	"os"
	"os/exec"
	"path/filepath"
	"strings"
	"sync"
	"time"
)

type solverSpec struct {
	name string
	args func(file string, timeoutS int, seed int) []string
}

var solvers = []solverSpec{
	{"z3-new", func(f string, t, seed int) []string {
		return []string{"z3-new", fmt.Sprintf("-T:%d", t), fmt.Sprintf("smt.random_seed=%d", seed), f}
	}},
	{"z3", func(f string, t, seed int) []string {
		return []string{"/usr/bin/z3", fmt.Sprintf("-T:%d", t), fmt.Sprintf("smt.random_seed=%d", seed), f}
	}},
	{"cvc5", func(f string, t, seed int) []string {
		return []string{"cvc5", fmt.Sprintf("--tlimit=%d", t*1000), fmt.Sprintf("--seed=%d", seed), "--produce-models", f}
	}},
}

type solveOut struct {
	status string
	solver string
	ms     int64
	output string
}

func runOne(ctx context.Context, sp solverSpec, file string, timeoutS, seed int) solveOut {
	args := sp.args(file, timeoutS, seed)
	start := time.Now()
	cctx, cancel := context.WithTimeout(ctx, time.Duration(timeoutS+2)*time.Second)
	defer cancel()
	cmd := exec.CommandContext(cctx, args[0], args[1:]...)
	var out bytes.Buffer
	cmd.Stdout = &out
	cmd.Stderr = &out
	_ = cmd.Run()
	ms := time.Since(start).Milliseconds()
	text := out.String()
	first := strings.TrimSpace(strings.SplitN(text, "\n", 2)[0])
	st := "unknown"
	switch {
	case first == "unsat":
		st = "unsat"
	case first == "sat":
		st = "sat"
	case strings.Contains(first, "timeout") || cctx.Err() == context.DeadlineExceeded:
		st = "timeout"
	case strings.HasPrefix(first, "(error") || strings.Contains(first, "rror"):
		st = "error"
	}
	return solveOut{st, sp.name, ms, text}
}

// race runs all solvers on the file and returns the first definite answer.
func race(file string, timeoutS, seed int, only string) solveOut {
	ctx, cancel := context.WithCancel(context.Background())
	defer cancel()
	if only != "" {
		for _, sp := range solvers {
			if sp.name == only {
				r := runOne(ctx, sp, file, timeoutS, seed)
				if r.status != "unsat" && r.status != "sat" {
					r.solver = "none"
				}
				return r
			}
		}
	}
	ch := make(chan solveOut, len(solvers))
	for _, sp := range solvers {
		sp := sp
		go func() { ch <- runOne(ctx, sp, file, timeoutS, seed) }()
	}
	var last solveOut
	var errs []string
	for range solvers {
		r := <-ch
		if r.status == "unsat" || r.status == "sat" {
			return r
		}
		if r.status == "error" {
			errs = append(errs, r.solver+": "+firstLine(r.output))
		}
		if last.status == "" || r.status == "timeout" {
			last = r
		}
	}
	if last.status == "error" && len(errs) > 0 {
		last.output = strings.Join(errs, "\n")
	} else if len(errs) == len(solvers) {
		last.status = "error"
		last.output = strings.Join(errs, "\n")
	}
	last.solver = "none"
	return last
}

func firstLine(s string) string {
	return strings.TrimSpace(strings.SplitN(s, "\n", 2)[0])
}

// Discharge runs every obligation through the portfolio.
func Discharge(obls []*Obligation, workDir string, timeoutS, seed, parallel int) {
	dischargeWith(obls, workDir, timeoutS, seed, parallel, "")
}

func dischargeWith(obls []*Obligation, workDir string, timeoutS, seed, parallel int, only string) {
	os.MkdirAll(workDir, 0o755)
	var wg sync.WaitGroup
	sem := make(chan struct{}, parallel)
	for i, o := range obls {
		if o.Pre {
			continue
		}
		wg.Add(1)
		sem <- struct{}{}
		go func(i int, o *Obligation) {
			defer wg.Done()
			defer func() { <-sem }()
			file := filepath.Join(workDir, fmt.Sprintf("%04d_%s.smt2", i, sanitize(o.Name)))
			var gv []string
			for _, mv := range o.VC.modelVars {
				gv = append(gv, mv.Term)
			}
			prelude := preludeText + strings.Join(o.VC.extraDecls, "\n") + "\n"
			text := o.Script.Render(prelude, o.Pos, o.Goal, gv)
			if err := os.WriteFile(file, []byte(text), 0o644); err != nil {
				o.Status = "error"
				o.Output = err.Error()
				return
			}
			to := timeoutS
			if o.ExpectSat && to > 3 {
				to = 3
			}
			r := race(file, to, seed, only)
			o.Status, o.Solver, o.Ms, o.Output = r.status, r.solver, r.ms, r.output
			o.File = file
		}(i, o)
	}
	wg.Wait()
}


// DischargeAll discharges the obligations; undecided ones are retried with
// other seeds and a longer timeout, and merged post-conditions fall back to
// their per-return-point split.
func DischargeAll(obls []*Obligation, workDir string, timeoutS, seed, parallel int) {
	// pass 1: one solver per obligation (most obligations are easy), pass 2: race the portfolio on the rest
	first := timeoutS
	if first > 5 {
		first = 5
	}
	dischargeWith(obls, workDir, first, seed, 14, "z3-new")
	var rest []*Obligation
	for _, o := range obls {
		if o.Status != "unsat" && !(o.ExpectSat && o.Status == "sat") && !o.Pre {
			rest = append(rest, o)
		}
	}
	Discharge(rest, filepath.Join(workDir, "race"), timeoutS, seed, 5)
	undecided := func() []*Obligation {
		var out []*Obligation
		for _, o := range obls {
			if o.Status != "unsat" && o.Status != "sat" && !o.ExpectSat {
				out = append(out, o)
			}
		}
		return out
	}
	// per-return split first: cheap and usually decisive
	var alts []*Obligation
	var withAlts []*Obligation
	for _, o := range undecided() {
		if o.HasAlts {
			withAlts = append(withAlts, o)
			alts = append(alts, o.Alts...)
		}
	}
	if len(alts) > 0 {
		Discharge(alts, filepath.Join(workDir, "split"), timeoutS, seed, 5)
		for _, o := range withAlts {
			all := true
			var ms int64
			for _, a := range o.Alts {
				ms += a.Ms
				if a.Status != "unsat" {
					all = false
				}
			}
			if all {
				o.Status, o.Solver, o.Ms = "unsat", "split-by-return", o.Ms+ms
			}
		}
	}
	if os.Getenv("VERIF_FAST") != "" {
		return // development: no retries, failures come back quickly
	}
	for round := 1; round <= 2; round++ {
		u := undecided()
		if len(u) == 0 || len(u) > 24 {
			return
		}
		Discharge(u, filepath.Join(workDir, fmt.Sprintf("retry%d", round)), timeoutS*3, seed+round*7919, 5)
	}
	// last resort, for a machine that is busy with other work: a handful of
	// leftovers get a long, nearly sequential run before they are reported
	if u := undecided(); len(u) > 0 && len(u) <= 8 {
		Discharge(u, filepath.Join(workDir, "retry-long"), timeoutS*12, seed+3*7919, 3)
	}
}


// VacuityTwins re-checks a sample of discharged obligations with their goal
// conjoined with an unconstrained boolean. Such a goal is provable only from
// contradictory assumptions, so an `unsat` answer means the proof of the
// original obligation was vacuous. Returns the twins (Status unsat = alarm).
func VacuityTwins(obls []*Obligation, workDir string, seed int, max int) []*Obligation {
	var twins []*Obligation
	perFunc := map[string]int{}
	for _, o := range obls {
		if o.Status != "unsat" || o.ExpectSat || o.Pre || o.Solver == "split-by-return" {
			continue
		}
		switch o.Kind {
		case "post", "frame", "loop-inv-preserved", "call-pre":
		default:
			continue
		}
		if perFunc[o.Func+o.Kind] >= 2 || len(twins) >= max {
			continue
		}
		perFunc[o.Func+o.Kind]++
		flag := Term{"vacuity_twin_flag", SBool}
		t := &Obligation{Name: o.Name + "~twin", Kind: "vacuity-twin", Func: o.Func, Pos: o.Pos, Goal: mkAnd(o.Goal, flag), Script: o.Script,
			Src: o.Src, Desc: "vacuity twin of " + o.Name, VC: o.VC, ExpectSat: true, Twin: true, TwinOf: o}
		twins = append(twins, t)
	}
	dischargeWith(twins, filepath.Join(workDir, "twins"), 3, seed, 12, "z3-new")
	return twins
}
