package main

import (
	"fmt"
	"go/ast"
	"go/token"
	"go/types"
	"sort"
	"strings"

	"golang.org/x/tools/go/ssa"
)

// lookupContract finds the contract for a callee: in its own package's
// contract file, then in the library contracts.
func (p *Prog) lookupContract(fn *ssa.Function) (*FuncContract, *ContractFile) {
	var pkgPath string
	if fn.Pkg != nil {
		pkgPath = fn.Pkg.Pkg.Path()
	} else if fn.Parent() != nil && fn.Parent().Pkg != nil {
		pkgPath = fn.Parent().Pkg.Pkg.Path()
	}
	if cf := p.contracts[pkgPath]; cf != nil {
		if fc := cf.Funcs[funcKey(fn)]; fc != nil {
			return fc, cf
		}
	}
	if p.lib != nil {
		if fc := p.lib.Funcs[funcKeyQualified(fn)]; fc != nil {
			return fc, p.lib
		}
	}
	return nil, p.contracts[pkgPath]
}

func (p *Prog) lookupIfaceContract(recv types.Type, method string) (*FuncContract, *ContractFile) {
	key := typeKey(recv) + "." + method
	for _, cf := range p.contracts {
		if fc := cf.Funcs["iface "+key]; fc != nil {
			return fc, cf
		}
	}
	if p.lib != nil {
		if fc := p.lib.Funcs["iface "+key]; fc != nil {
			return fc, p.lib
		}
	}
	return nil, nil
}

func (fr *Frame) call(c *ssa.CallCommon, instr ssa.Instruction, st *State, reach Term) Val {
	vc := fr.vc
	fr.curReach = reach
	if c.IsInvoke() {
		recv := fr.val(c.Value, st)
		var args []Val
		for _, a := range c.Args {
			args = append(args, fr.val(a, st))
		}
		fr.nilCheck(recv.(*FV).L[0], reach, "method call on nil interface")
		fc, cf := vc.prog.lookupIfaceContract(c.Value.Type(), c.Method.Name())
		sig := c.Method.Type().(*types.Signature)
		name := typeKey(c.Value.Type()) + "." + c.Method.Name()
		short := c.Method.Name()
		fr.calls[short] = fr.callOrd[instr]
		if fr.fc != nil {
			for ci := range fr.fc.CallAssert {
				ca := &fr.fc.CallAssert[ci]
				if ca.Callee == short && ca.K == fr.calls[short] {
					ca.Matched = true
					pos := token.NoPos
					if fr.curInstr != nil {
						pos = fr.curInstr.Pos()
					}
					env := fr.specEnvAt(st, fmt.Sprintf("assert@call %s#%d", short, ca.K), pos)
					for i := 0; i < sig.Params().Len() && i < len(args); i++ {
						env.vars["arg_"+sig.Params().At(i).Name()] = args[i]
					}
					fr.obligeParts(fmt.Sprintf("call.%s@%d.assert%s", short, ca.K, labelSuffix(ca.C)), "call-assert", reach, env, ca.C)
				}
			}
		}
		var res Val
		if fc != nil {
			res = fr.applyContract(name, sig, nil, fc, cf, append([]Val{recv}, args...), st, reach, true)
		} else {
			res = fr.havocCall(name, sig, st)
		}
		fr.assumeNotPrivateSentinel(res, sig, reach)
		fr.assumeAfter(short, fr.calls[short], res, st, reach)
		return res
	}
	if b, ok := c.Value.(*ssa.Builtin); ok {
		if k := fr.callOrd[instr]; k > 0 && fr.fc != nil {
			short := b.Name()
			for ci := range fr.fc.CallAssert {
				ca := &fr.fc.CallAssert[ci]
				if ca.Callee == short && ca.K == k {
					ca.Matched = true
					env := fr.specEnvAt(st, fmt.Sprintf("assert@call %s#%d", short, k), instr.Pos())
					fr.obligeParts(fmt.Sprintf("call.%s@%d.assert%s", short, k, labelSuffix(ca.C)), "call-assert", reach, env, ca.C)
				}
			}
		}
		return fr.builtin(b, c, instr, st, reach)
	}
	var args []Val
	for _, a := range c.Args {
		args = append(args, fr.val(a, st))
	}
	callee := c.StaticCallee()
	var bindings []Val
	if callee == nil {
		// function value: try to resolve
		callee, bindings = fr.resolveFuncValue(c.Value, st)
		if callee == nil {
			if cands := funcCandidates(c.Value); len(cands) > 0 && len(cands) <= 4 {
				return fr.dispatchCall(c, cands, args, st, reach, instr)
			}
			sig := c.Value.Type().Underlying().(*types.Signature)
			// a function-typed parameter may carry a declared contract:
			// "//@ func fv <function key>.<parameter name>"
			if prm := paramOfFuncValue(c.Value); prm != nil && fr.cf != nil {
				if fvc := fr.cf.Funcs["fv "+funcKey(fr.fn)+"."+prm.Name()]; fvc != nil {
					short := prm.Name()
					fr.calls[short] = fr.callOrd[instr]
					if fr.fc != nil {
						for ci := range fr.fc.CallAssert {
							ca := &fr.fc.CallAssert[ci]
							if ca.Callee == short && ca.K == fr.calls[short] {
								ca.Matched = true
								env := fr.specEnvAt(st, fmt.Sprintf("assert@call %s#%d", short, ca.K), instr.Pos())
								for i := 0; i < sig.Params().Len() && i < len(args); i++ {
									env.vars["arg_"+sig.Params().At(i).Name()] = args[i]
								}
								fr.obligeParts(fmt.Sprintf("call.%s@%d.assert%s", short, ca.K, labelSuffix(ca.C)), "call-assert", reach, env, ca.C)
							}
						}
					}
					res := fr.applyContract("function value "+short, sig, nil, fvc, fr.cf, args, st, reach, false)
					fr.assumeNotPrivateSentinel(res, sig, reach)
					fr.assumeAfter(short, fr.calls[short], res, st, reach)
					return res
				}
			}
			return fr.havocCall("function value "+c.Value.Name(), sig, st)
		}
	} else if mc, ok := c.Value.(*ssa.MakeClosure); ok {
		bindings = vc.closures[mc]
	}
	return fr.callStatic(callee, bindings, args, st, reach, instr)
}

func (fr *Frame) resolveFuncValue(v ssa.Value, st *State) (*ssa.Function, []Val) {
	vc := fr.vc
	seen := map[ssa.Value]bool{}
	for v != nil && !seen[v] {
		seen[v] = true
		switch x := v.(type) {
		case *ssa.Function:
			return x, nil
		case *ssa.MakeClosure:
			return x.Fn.(*ssa.Function), vc.closures[x]
		case *ssa.UnOp:
			// load of a local that is assigned exactly once
			if a, ok := x.X.(*ssa.Alloc); ok {
				var stored ssa.Value
				n := 0
				for _, r := range *a.Referrers() {
					if s, ok := r.(*ssa.Store); ok && s.Addr == ssa.Value(a) {
						stored = s.Val
						n++
					}
				}
				if n == 1 {
					v = stored
					continue
				}
			}
			return nil, nil
		case *ssa.ChangeType:
			v = x.X
		default:
			return nil, nil
		}
	}
	return nil, nil
}

func (fr *Frame) callStatic(callee *ssa.Function, bindings []Val, args []Val, st *State, reach Term, instr ssa.Instruction) Val {
	vc := fr.vc
	// interior pointers (&arr[i], &s.f) passed as arguments: copy-in / copy-out
	// through a fresh cell. Sound when the callee does not retain the pointer
	// and the location is not also reachable through another argument.
	type back struct {
		lv   *LV
		cell *LV
		t    types.Type
	}
	var backs []back
	for i, a := range args {
		lv, ok := a.(*LV)
		if !ok {
			continue
		}
		if lv.ElemT == nil || isAggregate(lv.ElemT) {
			vc.unsupportedf("interior pointer to %v passed to %s", lv.ElemT, callee.Name())
		}
		r := vc.newRef(st, "argcell")
		cell := &LV{Kind: LCell, Key: elemKey(lv.ElemT), Ref: r, ElemT: lv.ElemT}
		cur := fr.load(lv, lv.ElemT, st, reach).(*FV)
		vc.storeFlat(st, cell, cur)
		args = append(append([]Val{}, args[:i]...), append([]Val{scalar(lv.T, r)}, args[i+1:]...)...)
		backs = append(backs, back{lv, cell, lv.ElemT})
		vc.note("interior pointer argument of %s passed by copy-in/copy-out (assumes the callee does not retain it and it does not alias other arguments)", callee.Name())
	}
	if len(backs) > 0 {
		defer func() {
			for _, b := range backs {
				nv := vc.loadFlat(st, b.cell, b.t)
				vc.sc.Assume(mkImplies(reach, vc.wellTyped(nv, st)), "")
				fr.storeTo(b.lv, nv, st)
			}
		}()
	}
	fc, cf := vc.prog.lookupContract(callee)
	name := funcKeyQualified(callee)
	short := callee.Name()
	k := fr.callOrd[instr]
	if k == 0 {
		fr.calls[short]++
		k = 100 + fr.calls[short]
	}
	// caller-side assertions at this call site
	if fr.fc != nil {
		for ci := range fr.fc.CallAssert {
			ca := &fr.fc.CallAssert[ci]
			if ca.Callee == short && ca.K == k {
				ca.Matched = true
				pos := token.NoPos
				if fr.curInstr != nil {
					pos = fr.curInstr.Pos()
				}
				env := fr.specEnvAt(st, fmt.Sprintf("assert@call %s#%d", short, k), pos)
				for i, p := range callee.Params {
					if i < len(args) {
						env.vars["arg_"+p.Name()] = args[i]
					}
				}
				fr.obligeParts(fmt.Sprintf("call.%s@%d.assert%s", short, k, labelSuffix(ca.C)), "call-assert", reach, env, ca.C)
			}
		}
	}
	inline := false
	if fc != nil && fc.Inline {
		inline = true
	}
	if fc == nil && len(callee.Blocks) > 0 && fr.depth < 5 && (len(findLoops(callee)) == 0 || callee.Parent() != nil) && !vc.prog.isRecursive(callee) && countInstrs(callee) < 400 {
		inline = true
	}
	var res Val
	switch {
	case fc != nil && !inline:
		res = fr.applyContract(fmt.Sprintf("%s@%d", short, k), callee.Signature, callee, fc, cf, args, st, reach, false)
		if name == "errors.New" || name == "fmt.Errorf" {
			// a freshly made error value is none of the package-level error variables
			if fv, ok := res.(*FV); ok && len(fv.L) == 2 {
				n := len(vc.prog.errGlobals)
				vc.sc.Assume(mkImplies(reach, mkNot(mkAnd(mkEq(fv.L[0], intLit64(1000000)), app(SBool, ">=", fv.L[1], intLit64(1000001)), app(SBool, "<=", fv.L[1], intLit64(int64(1000000+n)))))), name+" returns a new error value, distinct from every package-level error variable")
			}
		}
	case inline:
		res = fr.inlineCall(callee, fc, cf, bindings, args, st, reach, fmt.Sprintf("%s@%d.", short, k))
	default:
		res = fr.havocCall(name, callee.Signature, st)
	}
	fr.assumeAfter(short, k, res, st, reach)
	return res
}

func countInstrs(fn *ssa.Function) int {
	n := 0
	for _, b := range fn.Blocks {
		n += len(b.Instrs)
	}
	return n
}

func (fr *Frame) inlineCall(callee *ssa.Function, fc *FuncContract, cf *ContractFile, bindings []Val, args []Val, st *State, reach Term, prefix string) Val {
	vc := fr.vc
	sub := vc.newFrame(callee, fc, cf, fr.prefix+prefix, fr.depth+1)
	sub.params = args
	sub.entry = st.clone()
	for i, p := range callee.Params {
		sub.vals[p] = args[i]
	}
	for i, fv := range callee.FreeVars {
		if i < len(bindings) {
			sub.vals[fv] = bindings[i]
		} else {
			vc.unsupportedf("closure %s called without known bindings", callee)
		}
	}
	if fc != nil {
		env := sub.specEnv(st, "requires of "+callee.Name())
		sub.bindParams(env)
		for j, c := range fc.Requires {
			fr.obligeParts(fmt.Sprintf("%spre.%d", prefix, j+1), "call-pre", reach, env, c)
		}
	}
	rets := sub.run(st.clone(), reach)
	if len(rets) == 0 {
		// callee never returns (always panics): the rest is unreachable
		vc.sc.Assume(mkNot(reach), "callee never returns")
		return vc.freshVal("noreturn", callee.Signature.Results(), st)
	}
	var edges []inEdge
	for _, r := range rets {
		edges = append(edges, inEdge{r.reach, r.st})
	}
	merged, _ := vc.mergeStates(edges)
	// the caller's locals are untouched by the callee; keep the callee's out
	for a, v := range st.Locals {
		merged.Locals[a] = v
	}
	st.Heap = merged.Heap
	st.Alloc = merged.Alloc
	for a := range merged.Locals {
		if _, mine := st.Locals[a]; !mine {
			delete(merged.Locals, a)
		}
	}
	// results
	nres := callee.Signature.Results().Len()
	if nres == 0 {
		return nil
	}
	var outs []Val
	for i := 0; i < nres; i++ {
		var acc Val
		for j := len(rets) - 1; j >= 0; j-- {
			if acc == nil {
				acc = rets[j].results[i]
			} else {
				acc = vc.mergeVal(rets[j].reach, rets[j].results[i], acc, "ret")
			}
		}
		outs = append(outs, acc)
	}
	if nres == 1 {
		return outs[0]
	}
	return &TV{T: callee.Signature.Results(), E: outs}
}

func (fr *Frame) bindParams(env *SpecEnv) {
	for i, p := range fr.fn.Params {
		env.vars[p.Name()] = fr.params[i]
	}
}

// havocAll forgets the whole heap (used for calls without a contract).
func (fr *Frame) havocAll(st *State) {
	vc := fr.vc
	if vc.mods != nil {
		fr.oblige("writes", fr.curReachOrTrue(), tFalse, "call without a contract may write anywhere: not covered by the modifies clause")
	}
	var keys []string
	for k := range vc.entrySorts {
		keys = append(keys, k)
	}
	sort.Strings(keys)
	for _, k := range keys {
		if strings.HasPrefix(k, "G|") && vc.prog.immutableGlobal(strings.Split(k, "|")[1]) {
			continue
		}
		st.Heap[k] = vc.declHeap(k, vc.entrySorts[k])
	}
	na := vc.sc.Decl("alloc", SInt)
	vc.sc.Assume(app(SBool, ">=", na, st.Alloc), "allocation counter only grows")
	st.Alloc = na
}

func (fr *Frame) havocCall(name string, sig *types.Signature, st *State) Val {
	vc := fr.vc
	if pureExternal[name] {
		vc.note("call to %s: result arbitrary, no side effects (library function assumed pure)", name)
	} else {
		vc.note("call to %s has no contract: whole heap havoc'd, result arbitrary", name)
		fr.havocAll(st)
	}
	if sig.Results().Len() == 0 {
		return nil
	}
	if sig.Results().Len() == 1 {
		v := vc.freshVal("res", sig.Results().At(0).Type(), st)
		fr.assumeLibResult(name, v)
		return v
	}
	return vc.freshVal("res", sig.Results(), st)
}

// pureExternal lists library functions assumed to have no effect on the
// modelled heap (they only build values).
var pureExternal = map[string]bool{
	"errors.New": true, "fmt.Errorf": true, "fmt.Sprintf": true, "fmt.Sprint": true,
	"strconv.Itoa": true, "strconv.Quote": true, "strings.Repeat": true,
	"bits.Len": true, "bits.Len32": true, "bits.Len64": true, "bits.TrailingZeros32": true,
	"bits.LeadingZeros32": true, "bits.LeadingZeros64": true,
}

func (fr *Frame) assumeLibResult(name string, v Val) {
	vc := fr.vc
	switch name {
	case "errors.New", "fmt.Errorf":
		fv := v.(*FV)
		vc.sc.Assume(mkNot(mkEq(fv.L[0], intLit64(0))), name+" returns a non-nil error")
	}
}

// applyContract replaces a call by the callee's contract.
func (fr *Frame) applyContract(site string, sig *types.Signature, callee *ssa.Function, fc *FuncContract, cf *ContractFile, args []Val, st *State, reach Term, iface bool) Val {
	vc := fr.vc
	fc.Used = true
	env := &SpecEnv{vc: vc, fn: callee, cf: cf, vars: map[string]Val{}, oldVars: map[string]Val{}, where: "contract of " + site, guard: reach}
	if callee != nil && callee.Pkg != nil {
		env.pkg = callee.Pkg.Pkg
	} else if fr.fn.Pkg != nil {
		env.pkg = fr.fn.Pkg.Pkg
	}
	if iface && cf != nil && cf.PkgTypes != nil {
		env.pkg = cf.PkgTypes
	}
	if callee != nil && callee.Pkg == nil && cf != nil && cf.PkgTypes != nil {
		env.pkg = cf.PkgTypes
	}
	// bind parameters
	names := paramNames(sig, callee, iface)
	if len(names) != len(args) {
		vc.unsupportedf("contract of %s: %d parameter names for %d arguments", site, len(names), len(args))
	}
	for i, n := range names {
		if n != "" && n != "_" {
			env.vars[n] = args[i]
			env.oldVars[n] = args[i]
		} else {
			// unnamed parameter (function types usually have none): arg<i>
			env.vars[fmt.Sprintf("arg%d", i)] = args[i]
			env.oldVars[fmt.Sprintf("arg%d", i)] = args[i]
		}
	}
	pre := st.clone()
	env.cur = pre
	env.old = pre
	env.allocOld = pre.Alloc
	for j, c := range fc.Requires {
		fr.obligeParts(fmt.Sprintf("call.%s.pre.%d", site, j+1), "call-pre", reach, env, c)
	}
	// havoc the frame
	if fc.ModAll {
		fr.havocAll(st)
	} else {
		for _, m := range fc.Modifies {
			fr.curReach = reach
			fr.havocLvalue(env, m.Expr, st)
		}
		if !fc.Pure {
			na := vc.sc.Decl("alloc", SInt)
			vc.sc.Assume(app(SBool, ">=", na, st.Alloc), "allocation counter only grows")
			st.Alloc = na
		}
	}
	// results
	var result Val
	res := sig.Results()
	post := &SpecEnv{vc: vc, fn: callee, cf: cf, pkg: env.pkg, vars: map[string]Val{}, oldVars: env.oldVars, cur: st, old: pre, allocOld: pre.Alloc, where: "ensures of " + site, guard: reach}
	for k, v := range env.vars {
		post.vars[k] = v
	}
	if res.Len() > 0 {
		var rs []Val
		for i := 0; i < res.Len(); i++ {
			rv := vc.freshVal("res", res.At(i).Type(), st)
			rs = append(rs, rv)
			if n := res.At(i).Name(); n != "" && n != "_" {
				post.vars[n] = rv
			}
			post.vars[fmt.Sprintf("result%d", i)] = rv
		}
		post.vars["result"] = rs[0]
		if res.Len() == 1 {
			result = rs[0]
		} else {
			result = &TV{T: res, E: rs}
		}
	}
	for _, c := range fc.Ensures {
		vc.sc.Assume(mkImplies(reach, post.Bool(c.Expr)), "ensures of "+site+": "+c.Src)
	}
	for _, c := range fc.Assume {
		vc.sc.Assume(mkImplies(reach, post.Bool(c.Expr)), "assumed in contract of "+site+": "+c.Src)
	}
	return result
}

func paramNames(sig *types.Signature, callee *ssa.Function, iface bool) []string {
	var names []string
	if callee != nil && len(callee.Blocks) > 0 {
		for _, p := range callee.Params {
			names = append(names, p.Name())
		}
		return names
	}
	if iface || sig.Recv() != nil {
		if sig.Recv() != nil && sig.Recv().Name() != "" && sig.Recv().Name() != "_" && !iface {
			names = append(names, sig.Recv().Name())
		} else {
			names = append(names, "recv")
		}
	}
	for i := 0; i < sig.Params().Len(); i++ {
		names = append(names, sig.Params().At(i).Name())
	}
	return names
}

// havocLvalue havocs the location(s) denoted by a modifies clause.
func (fr *Frame) havocLvalue(env *SpecEnv, e ast.Expr, st *State) {
	vc := fr.vc
	enc := vc.enc
	if pe, ok := e.(*ast.ParenExpr); ok {
		e = pe.X
	}
	switch x := e.(type) {
	case *ast.CallExpr:
		if id, ok := x.Fun.(*ast.Ident); ok {
			if id.Name == "mem" {
				m := env.tr(x).(*MemV)
				if isAggregate(m.Elem) {
					vc.unsupportedf("modifies mem() of aggregate elements")
				}
				for _, l := range enc.Leaves(m.Elem) {
					key := vc.memKey(m.Elem, l.Name)
					s := SArr(SInt, SArr(enc.Idx(), l.Sort))
					arr := vc.heapGet(st, key, s)
					fr.checkWrite(key, m.Base, fr.curReach)
					nv := vc.sc.Def(key, mkStore(arr, m.Base, vc.declHeap(key+"@", SArr(enc.Idx(), l.Sort))))
					vc.prov[nv.S] = provInfo{kind: 0, parent: arr.S, ref: m.Base}
					vc.heapSet(st, key, nv)
				}
				return
			}
			if sf, ok := env.lookupSpec(id.Name); ok && sf.Heap {
				p := env.tr(x.Args[0]).(*FV)
				rt := env.lookupType(sf.Result)
				key := "H|ghost|" + sf.Name + "|v"
				s := SArr(SInt, enc.scalarSort(rt))
				arr := vc.heapGet(st, key, s)
				fr.checkWrite(key, p.L[0], fr.curReach)
				nv := vc.sc.Def(key, mkStore(arr, p.L[0], vc.declHeap(key+"@", enc.scalarSort(rt))))
				vc.prov[nv.S] = provInfo{kind: 0, parent: arr.S, ref: p.L[0]}
				vc.heapSet(st, key, nv)
				return
			}
		}
	case *ast.SelectorExpr:
		base := env.tr(x.X)
		fv, ok := base.(*FV)
		if !ok {
			vc.unsupportedf("modifies %s: base is not a pointer", exprString(e))
		}
		pt, ok := fv.T.Underlying().(*types.Pointer)
		if !ok {
			vc.unsupportedf("modifies %s: base is not a pointer", exprString(e))
		}
		su, ok := pt.Elem().Underlying().(*types.Struct)
		if !ok {
			vc.unsupportedf("modifies %s: not a struct", exprString(e))
		}
		i := findField(su, x.Sel.Name)
		if i < 0 {
			vc.unsupportedf("modifies %s: no such field", exprString(e))
		}
		fr.havocField(st, pt.Elem(), i, fv.L[0])
		return
	case *ast.StarExpr:
		// *p : everything in the object p points to
		p := env.tr(x.X).(*FV)
		pt := p.T.Underlying().(*types.Pointer)
		fr.havocObj(st, pt.Elem(), p.L[0])
		return
	case *ast.Ident:
		// package-level variable
		if env.pkg != nil {
			if obj, ok := env.pkg.Scope().Lookup(x.Name).(*types.Var); ok {
				for _, l := range enc.Leaves(obj.Type()) {
					key := "G|" + env.pkg.Name() + "." + x.Name + "|" + l.Name
					vc.heapGet(st, key, l.Sort)
					vc.heapSet(st, key, vc.declHeap(key, l.Sort))
				}
				return
			}
		}
	}
	vc.unsupportedf("unsupported modifies clause %s", exprString(e))
}

func (fr *Frame) havocField(st *State, stT types.Type, i int, ref Term) {
	vc := fr.vc
	enc := vc.enc
	su := stT.Underlying().(*types.Struct)
	ft := su.Field(i).Type()
	if isAggregate(ft) {
		fr.havocObj(st, ft, vc.subRef(stT, i, ref))
		return
	}
	for li, l := range enc.Leaves(ft) {
		key := vc.fieldKey(stT, i, l.Name)
		arr := vc.heapGet(st, key, SArr(SInt, l.Sort))
		if li == 0 {
			fr.checkWrite(key, ref, fr.curReach)
		}
		nv := vc.sc.Def(key, mkStore(arr, ref, vc.declHeap(key+"@", l.Sort)))
		vc.prov[nv.S] = provInfo{kind: 0, parent: arr.S, ref: ref}
		vc.heapSet(st, key, nv)
	}
	// type invariant of the new contents
	nv := vc.loadFlat(st, &LV{Kind: LField, Key: typeKey(stT) + "|" + su.Field(i).Name(), Ref: ref}, ft)
	vc.sc.Assume(vc.wellTyped(nv, st), "")
}

func (fr *Frame) havocObj(st *State, t types.Type, ref Term) {
	vc := fr.vc
	enc := vc.enc
	switch u := t.Underlying().(type) {
	case *types.Struct:
		for i := 0; i < u.NumFields(); i++ {
			fr.havocField(st, t, i, ref)
		}
	case *types.Array:
		if isAggregate(u.Elem()) {
			vc.unsupportedf("havoc of array of aggregates")
		}
		for li, l := range enc.Leaves(u.Elem()) {
			key := vc.memKey(u.Elem(), l.Name)
			arr := vc.heapGet(st, key, SArr(SInt, SArr(enc.Idx(), l.Sort)))
			if li == 0 {
				fr.checkWrite(key, ref, fr.curReach)
			}
			nv := vc.sc.Def(key, mkStore(arr, ref, vc.declHeap(key+"@", SArr(enc.Idx(), l.Sort))))
			vc.prov[nv.S] = provInfo{kind: 0, parent: arr.S, ref: ref}
			vc.heapSet(st, key, nv)
		}
	default:
		for li, l := range enc.Leaves(t) {
			key := vc.cellKey(t, l.Name)
			arr := vc.heapGet(st, key, SArr(SInt, l.Sort))
			if li == 0 {
				fr.checkWrite(key, ref, fr.curReach)
			}
			nv := vc.sc.Def(key, mkStore(arr, ref, vc.declHeap(key+"@", l.Sort)))
			vc.prov[nv.S] = provInfo{kind: 0, parent: arr.S, ref: ref}
			vc.heapSet(st, key, nv)
		}
	}
}

// ---------- builtins ----------

func (fr *Frame) builtin(b *ssa.Builtin, c *ssa.CallCommon, instr ssa.Instruction, st *State, reach Term) Val {
	vc := fr.vc
	enc := vc.enc
	var args []Val
	for _, a := range c.Args {
		args = append(args, fr.val(a, st))
	}
	intT := types.Typ[types.Int]
	switch b.Name() {
	case "len", "cap":
		switch v := args[0].(type) {
		case *FV:
			switch u := v.T.Underlying().(type) {
			case *types.Slice:
				if b.Name() == "cap" {
					return scalar(intT, v.Cap())
				}
				return scalar(intT, v.Len())
			case *types.Basic:
				return scalar(intT, v.Len())
			case *types.Pointer:
				return scalar(intT, enc.idxLit(u.Elem().Underlying().(*types.Array).Len()))
			case *types.Map, *types.Chan:
				r := vc.freshVal("maplen", intT, st).(*FV)
				vc.sc.Assume(enc.idxLe(enc.idxLit(0), r.Term()), "len >= 0")
				return r
			}
		case *AV:
			return scalar(intT, enc.idxLit(v.T.Underlying().(*types.Array).Len()))
		}
		vc.unsupportedf("len/cap of %s", c.Args[0].Type())
	case "append":
		return fr.appendBuiltin(c, args, st, reach)
	case "copy":
		return fr.copyBuiltin(c, args, st, reach)
	case "min", "max":
		acc := args[0].(*FV)
		_, signed, _ := intInfo(acc.T)
		for _, a := range args[1:] {
			o := a.(*FV)
			cnd := enc.le(acc.Term(), o.Term(), signed)
			if b.Name() == "max" {
				cnd = enc.le(o.Term(), acc.Term(), signed)
			}
			acc = scalar(acc.T, mkIte(cnd, acc.Term(), o.Term()))
		}
		return acc
	case "print", "println":
		return nil
	case "delete":
		vc.note("map contents are not modelled (updates dropped, lookups arbitrary)")
		return nil
	case "clear":
		vc.unsupportedf("clear builtin")
	case "recover":
		return vc.enc.zeroVal(types.NewInterfaceType(nil, nil))
	case "ssa:deferstack":
		return scalar(types.Typ[types.Int], intLit64(0))
	case "ssa:wrapnilchk":
		return args[0]
	}
	vc.unsupportedf("builtin %s", b.Name())
	return nil
}

// quantAssume emits (forall k in [lo,hi). body(k)) as an assumption.
func (vc *FuncVC) forallIdx(lo, hi Term, body func(k Term) Term) Term {
	enc := vc.enc
	name := fmt.Sprintf("k?%d", vc.sc.n)
	vc.sc.n++
	k := Term{name, enc.Idx()}
	rng := mkAnd(enc.idxLe(lo, k), enc.idxLt(k, hi))
	return Term{fmt.Sprintf("(forall ((%s %s)) %s)", name, enc.Idx(), mkImplies(rng, body(k)).S), SBool}
}

func (fr *Frame) appendBuiltin(c *ssa.CallCommon, args []Val, st *State, reach Term) Val {
	vc := fr.vc
	enc := vc.enc
	dst := args[0].(*FV)
	src := args[1].(*FV)
	st0 := c.Args[0].Type().Underlying().(*types.Slice)
	et := st0.Elem()
	srcIsStr := isString(c.Args[1].Type())
	n := src.Len()
	newLen := vc.sc.Def("applen", enc.add(dst.Len(), n))
	inPlace := vc.sc.Def("inplace", enc.idxLe(newLen, dst.Cap()))
	fresh := vc.newRef(st, "appbase")
	ncap := vc.sc.Decl("appcap", enc.Idx())
	vc.sc.Assume(mkAnd(enc.idxLe(newLen, ncap), enc.idxLe(ncap, enc.idxLit(1<<62))), "capacity after growth")
	vc.sc.Assume(enc.idxLe(newLen, enc.idxLit(1<<62)), "slices stay below 2^62 elements")
	rbase := vc.sc.Def("rbase", mkIte(inPlace, dst.Base(), fresh))
	if !isAggregate(et) {
		fr.checkWrite(vc.memKey(et, enc.Leaves(et)[0].Name), rbase, mkAnd(reach, app(SBool, ">", n, enc.idxLit(0))))
	}
	roff := vc.sc.Def("roff", mkIte(inPlace, dst.Off(), enc.idxLit(0)))
	rcap := vc.sc.Def("rcap", mkIte(inPlace, dst.Cap(), ncap))
	if isAggregate(et) {
		vc.note("append to slice of aggregates: element contents not modelled")
		return &FV{T: dst.T, L: []Term{rbase, roff, newLen, rcap}}
	}
	// how many elements are appended, statically?
	staticN := int64(-1)
	if cst, ok := termConst(n); ok && cst.IsInt64() && cst.Int64() <= 8 {
		staticN = cst.Int64()
	}
	for _, l := range enc.Leaves(et) {
		key := vc.memKey(et, l.Name)
		s := SArr(SInt, SArr(enc.Idx(), l.Sort))
		arr := vc.heapGet(st, key, s)
		srcArr := func(k Term) Term {
			if srcIsStr {
				return mkSelect(mkSelect(vc.strMem(), src.Base()), enc.add(src.Off(), k))
			}
			srcKeyArr := arr
			return mkSelect(mkSelect(srcKeyArr, src.Base()), enc.add(src.Off(), k))
		}
		old := mkSelect(arr, dst.Base())
		if staticN >= 0 {
			// in place: stores; fresh: copy of prefix + stores
			inp := old
			for k := int64(0); k < staticN; k++ {
				inp = mkStore(inp, enc.add(enc.add(dst.Off(), dst.Len()), enc.idxLit(k)), srcArr(enc.idxLit(k)))
			}
			fa := vc.sc.Decl("apparr", SArr(enc.Idx(), l.Sort))
			vc.sc.Assume(vc.forallIdx(enc.idxLit(0), dst.Len(), func(k Term) Term {
				return mkEq(mkSelect(fa, k), mkSelect(old, enc.add(dst.Off(), k)))
			}), "append (grown): prefix copied")
			for k := int64(0); k < staticN; k++ {
				vc.sc.Assume(mkEq(mkSelect(fa, enc.add(dst.Len(), enc.idxLit(k))), srcArr(enc.idxLit(k))), "append (grown): new element")
			}
			nv := vc.sc.Def(key, mkStore(arr, rbase, mkIte(inPlace, inp, fa)))
			vc.prov[nv.S] = provInfo{kind: 0, parent: arr.S, ref: rbase}
			vc.heapSet(st, key, nv)
		} else {
			na := vc.sc.Decl("apparr", SArr(enc.Idx(), l.Sort))
			// prefix / unchanged part
			vc.sc.Assume(vc.forallIdx(enc.idxLit(0), dst.Len(), func(k Term) Term {
				return mkEq(mkSelect(na, enc.add(roff, k)), mkSelect(old, enc.add(dst.Off(), k)))
			}), "append: existing elements kept")
			vc.sc.Assume(vc.forallIdx(enc.idxLit(0), n, func(k Term) Term {
				return mkEq(mkSelect(na, enc.add(enc.add(roff, dst.Len()), k)), srcArr(k))
			}), "append: new elements")
			// in place: everything outside the appended window is unchanged
			name := fmt.Sprintf("k?%d", vc.sc.n)
			vc.sc.n++
			k := Term{name, enc.Idx()}
			lo := enc.add(dst.Off(), dst.Len())
			outside := mkOr(enc.idxLt(k, lo), enc.idxLe(enc.add(lo, n), k))
			vc.sc.Assume(mkImplies(inPlace, Term{fmt.Sprintf("(forall ((%s %s)) %s)", name, enc.Idx(), mkImplies(outside, mkEq(mkSelect(na, k), mkSelect(old, k))).S), SBool}), "append in place: rest of the backing array unchanged")
			nv := vc.sc.Def(key, mkStore(arr, rbase, na))
			vc.prov[nv.S] = provInfo{kind: 0, parent: arr.S, ref: rbase}
			vc.heapSet(st, key, nv)
		}
	}
	return &FV{T: dst.T, L: []Term{rbase, roff, newLen, rcap}}
}

func (fr *Frame) copyBuiltin(c *ssa.CallCommon, args []Val, st *State, reach Term) Val {
	vc := fr.vc
	enc := vc.enc
	dst := args[0].(*FV)
	src := args[1].(*FV)
	et := c.Args[0].Type().Underlying().(*types.Slice).Elem()
	srcIsStr := isString(c.Args[1].Type())
	n := vc.sc.Def("copyn", mkIte(enc.idxLe(dst.Len(), src.Len()), dst.Len(), src.Len()))
	if isAggregate(et) {
		vc.unsupportedf("copy of aggregate elements")
	}
	fr.checkWrite(vc.memKey(et, enc.Leaves(et)[0].Name), dst.Base(), mkAnd(reach, app(SBool, ">", n, enc.idxLit(0))))
	for _, l := range enc.Leaves(et) {
		key := vc.memKey(et, l.Name)
		s := SArr(SInt, SArr(enc.Idx(), l.Sort))
		arr := vc.heapGet(st, key, s)
		old := mkSelect(arr, dst.Base())
		na := vc.sc.Decl("copyarr", SArr(enc.Idx(), l.Sort))
		name := fmt.Sprintf("k?%d", vc.sc.n)
		vc.sc.n++
		k := Term{name, enc.Idx()}
		inWin := mkAnd(enc.idxLe(dst.Off(), k), enc.idxLt(k, enc.add(dst.Off(), n)))
		var srcAt Term
		sk := enc.add(src.Off(), enc.sub(k, dst.Off()))
		if srcIsStr {
			srcAt = mkSelect(mkSelect(vc.strMem(), src.Base()), sk)
		} else {
			srcAt = mkSelect(mkSelect(arr, src.Base()), sk)
		}
		body := mkEq(mkSelect(na, k), mkIte(inWin, srcAt, mkSelect(old, k)))
		vc.sc.Assume(Term{fmt.Sprintf("(forall ((%s %s)) %s)", name, enc.Idx(), body.S), SBool}, "copy semantics (memmove)")
		nv := vc.sc.Def(key, mkStore(arr, dst.Base(), na))
		vc.prov[nv.S] = provInfo{kind: 0, parent: arr.S, ref: dst.Base()}
		vc.heapSet(st, key, nv)
	}
	return scalar(types.Typ[types.Int], n)
}


func labelSuffix(c Clause) string {
	if c.Name != "" {
		return "." + c.Name
	}
	return fmt.Sprintf(".L%d", c.Line)
}


// funcCandidates: the functions a function-typed local can hold (every store
// to it stores a named function).
func funcCandidates(v ssa.Value) []*ssa.Function {
	u, ok := v.(*ssa.UnOp)
	if !ok {
		return nil
	}
	a, ok := u.X.(*ssa.Alloc)
	if !ok {
		return nil
	}
	var out []*ssa.Function
	for _, r := range *a.Referrers() {
		switch x := r.(type) {
		case *ssa.Store:
			if x.Addr != ssa.Value(a) {
				return nil
			}
			if k, isConst := x.Val.(*ssa.Const); isConst && k.Value == nil {
				// an initial nil: calling it is excluded by the nilfunc obligation
				continue
			}
			f, ok := x.Val.(*ssa.Function)
			if !ok {
				return nil
			}
			dup := false
			for _, o := range out {
				if o == f {
					dup = true
				}
			}
			if !dup {
				out = append(out, f)
			}
		case *ssa.UnOp, *ssa.DebugRef:
		default:
			return nil
		}
	}
	return out
}

// dispatchCall case-splits a call through a function value over its possible targets.
func (fr *Frame) dispatchCall(c *ssa.CallCommon, cands []*ssa.Function, args []Val, st *State, reach Term, instr ssa.Instruction) Val {
	vc := fr.vc
	fv := fr.val(c.Value, st).(*FV).Term()
	var edges []inEdge
	var results []Val
	var conds []Term
	for _, f := range cands {
		cond := mkEq(fv, vc.funcID(f))
		conds = append(conds, cond)
		r := vc.sc.Def("dispatch", mkAnd(reach, cond))
		sti := st.clone()
		res := fr.callStatic(f, nil, args, sti, r, instr)
		edges = append(edges, inEdge{r, sti})
		results = append(results, res)
	}
	fr.oblige("nilfunc", reach, mkOr(conds...), "call through a function value that holds one of its assigned functions")
	merged, _ := vc.mergeStates(edges)
	for a, v := range st.Locals {
		if _, ok := merged.Locals[a]; !ok {
			merged.Locals[a] = v
		}
	}
	st.Heap, st.Alloc, st.Locals = merged.Heap, merged.Alloc, merged.Locals
	var acc Val
	for i := len(results) - 1; i >= 0; i-- {
		if results[i] == nil {
			continue
		}
		if acc == nil {
			acc = results[i]
		} else {
			acc = vc.mergeVal(edges[i].reach, results[i], acc, "dispatch")
		}
	}
	return acc
}


func (fr *Frame) curReachOrTrue() Term {
	if fr.curReach.S == "" {
		return tTrue
	}
	return fr.curReach
}


// assumeAfter applies the "assume@after callee#k e" directives of the current
// function to the k-th call of callee (result, result0, result1, .. name the
// call's results). Every use is listed in the evidence as an assumption.
func (fr *Frame) assumeAfter(short string, k int, res Val, st *State, reach Term) {
	vc := fr.vc
	if fr.fc == nil {
		return
	}
	for i := range fr.fc.CallAssume {
		ca := &fr.fc.CallAssume[i]
		if ca.Callee != short || ca.K != k {
			continue
		}
		ca.Matched = true
		pos := token.NoPos
		if fr.curInstr != nil {
			pos = fr.curInstr.Pos()
		}
		env := fr.specEnvAt(st, fmt.Sprintf("assume@after %s#%d", short, k), pos)
		if res != nil {
			env.vars["result"] = res
			if tv, ok := res.(*TV); ok {
				for i, e := range tv.E {
					env.vars[fmt.Sprintf("result%d", i)] = e
				}
				env.vars["result"] = tv.E[0]
			}
		}
		vc.sc.Assume(mkImplies(reach, env.Bool(ca.C.Expr)), fmt.Sprintf("assumed after %s#%d: %s", short, k, ca.C.Src))
	}
}


// assumeNotPrivateSentinel: an error returned through an interface (code outside
// the package under verification) is none of this package's unexported sentinel
// error values: external code cannot name them. (Assumption, listed in the
// trusted base: the package does not hand its private sentinels to such code.)
func (fr *Frame) assumeNotPrivateSentinel(res Val, sig *types.Signature, reach Term) {
	vc := fr.vc
	if res == nil || fr.fn == nil || fr.fn.Pkg == nil {
		return
	}
	pkg := fr.fn.Pkg.Pkg.Name()
	var ids []int
	for name, id := range vc.prog.errGlobals {
		pn, vn, _ := strings.Cut(name, ".")
		if pn == pkg && !ast.IsExported(vn) {
			ids = append(ids, id)
		}
	}
	if len(ids) == 0 {
		return
	}
	sort.Ints(ids)
	one := func(v Val, t types.Type) {
		fv, ok := v.(*FV)
		if !ok || len(fv.L) != 2 || types.TypeString(t, nil) != "error" {
			return
		}
		var cs []Term
		for _, id := range ids {
			cs = append(cs, mkNot(mkAnd(mkEq(fv.L[0], intLit64(1000000)), mkEq(fv.L[1], intLit64(int64(1000000+id))))))
		}
		vc.sc.Assume(mkImplies(reach, mkAnd(cs...)), "an error returned through an interface is not one of this package's unexported sentinel errors")
		vc.note("errors returned through interfaces are assumed distinct from the package's unexported sentinel error values")
	}
	rs := sig.Results()
	if rs.Len() == 1 {
		one(res, rs.At(0).Type())
		return
	}
	if tv, ok := res.(*TV); ok {
		for i := 0; i < rs.Len() && i < len(tv.E); i++ {
			one(tv.E[i], rs.At(i).Type())
		}
	}
}
