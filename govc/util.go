package main

import "go/ast"

type (
	astCall     = ast.CallExpr
	astIdent    = ast.Ident
	astSelector = ast.SelectorExpr
	astStar     = ast.StarExpr
)
