package main

import (
	"encoding/json"
	"flag"
	"fmt"
	"os"
	"path/filepath"
	"sort"
	"strconv"
	"strings"
	"time"
)

type PropConfig struct {
	Pkgs        []string `json:"pkgs"`
	Claim       string   `json:"claim"`
	NotCovered  []string `json:"not_covered"`
	Assumptions []string `json:"assumptions"`
}

type finding struct {
	kind       string // finding | fixed
	property   string
	obligation string
	text       string
}

func loadFindings(path string) []finding {
	data, err := os.ReadFile(path)
	if err != nil {
		return nil
	}
	var out []finding
	for _, l := range strings.Split(string(data), "\n") {
		l = strings.TrimSpace(l)
		if l == "" || strings.HasPrefix(l, "#") {
			continue
		}
		kind, rest, ok := strings.Cut(l, ":")
		if !ok {
			continue
		}
		f := finding{kind: strings.TrimSpace(kind), text: strings.TrimSpace(rest)}
		for _, w := range strings.Fields(rest) {
			if v, ok := strings.CutPrefix(w, "property="); ok {
				f.property = v
			}
			if v, ok := strings.CutPrefix(w, "obligation="); ok {
				f.obligation = v
			}
		}
		out = append(out, f)
	}
	return out
}

func cmdCheck(args []string) {
	fs := flag.NewFlagSet("check", flag.ExitOnError)
	prop := fs.String("property", "", "property id")
	tier := fs.String("tier", "", "quick | thorough")
	fs.Parse(args)
	if *tier == "" {
		*tier = os.Getenv("VERIF_TIER")
	}
	if *tier == "" {
		*tier = "quick"
	}
	seed, _ := strconv.Atoi(os.Getenv("VERIF_SEED"))
	start := time.Now()
	root := verifRoot()
	var props map[string]*PropConfig
	data, err := os.ReadFile(filepath.Join(root, "props.json"))
	if err != nil {
		fmt.Fprintln(os.Stderr, "cannot read props.json:", err)
		os.Exit(2)
	}
	if err := json.Unmarshal(data, &props); err != nil {
		fmt.Fprintln(os.Stderr, "props.json:", err)
		os.Exit(2)
	}
	pc := props[*prop]
	if pc == nil {
		fmt.Fprintln(os.Stderr, "unknown property", *prop)
		os.Exit(2)
	}
	prog, err := LoadProg(repoRoot(), pc.Pkgs, filepath.Join(root, "contracts", "lib.contracts"))
	if err != nil {
		fmt.Fprintln(os.Stderr, "load:", err)
		fmt.Println("CHECK-ERROR: cannot load/type-check the packages from the working tree")
		os.Exit(2)
	}
	timeout := 10
	if *tier == "thorough" {
		timeout = 60
	}
	work, _ := os.MkdirTemp("", "govc-"+*prop)
	cleanup := func() {
		if os.Getenv("VERIF_KEEP") == "" {
			os.RemoveAll(work)
		} else {
			fmt.Println("keeping SMT files in", work)
		}
	}

	var results []*FuncResult
	var all []*Obligation
	broken := 0
	var pkgPaths []string
	for pp := range prog.contracts {
		pkgPaths = append(pkgPaths, pp)
	}
	sort.Strings(pkgPaths)
	var scan []string
	for _, pp := range pkgPaths {
		cf := prog.contracts[pp]
		scan = append(scan, cf.Scan...)
		for _, key := range cf.Order {
			fc := cf.Funcs[key]
			if !hasProp(fc.Props, *prop) || strings.HasPrefix(key, "iface ") || strings.HasPrefix(key, "fv ") {
				continue
			}
			if fc.Lemma {
				res := prog.VerifyLemma(fc, cf, cf.PkgTypes.Name(), *tier)
				results = append(results, res)
				if res.Unsupported != "" || res.ContractErr != "" {
					fmt.Printf("STALE-CONTRACT %s: %s%s\n", res.Name, res.Unsupported, res.ContractErr)
					broken++
				}
				all = append(all, res.Obls...)
				continue
			}
			if fc.Tier == "thorough" && *tier != "thorough" {
				continue
			}
			items, found := prog.Expand(pp, key, fc)
			if !found {
				// the function the contract is attached to is gone: nothing it
				// promised is established any more
				name := cf.PkgTypes.Name() + "." + key
				fmt.Printf("STALE-CONTRACT %s %s: function not found in the working tree\n", pp, key)
				all = append(all, unverifiable(name, "function under contract not found in the working tree"))
				continue
			}
			for _, it := range items {
				res := prog.VerifyFunc(it.fn, fc, cf, *tier)
				results = append(results, res)
				// A function that can no longer be verified (a contract clause no
				// longer binds, or the body left the supported subset) is a failed
				// proof of everything its contract promised: reported as a violation
				// of the pseudo-obligation <func>#contract, with the reason.
				if res.Unsupported != "" {
					fmt.Printf("CHECK-ERROR %s: outside the supported subset: %s\n", res.Name, res.Unsupported)
					all = append(all, unverifiable(res.Name, "outside the supported subset: "+res.Unsupported))
				}
				if res.ContractErr != "" {
					fmt.Printf("STALE-CONTRACT %s: %s\n", res.Name, res.ContractErr)
					all = append(all, unverifiable(res.Name, "contract no longer binds: "+res.ContractErr))
				}
				all = append(all, res.Obls...)
			}
		}
	}
	if prog.lib != nil {
		scan = append(scan, prog.lib.Scan...)
	}
	// schedule order depends on the seed; the set does not
	if seed != 0 {
		r := uint64(seed)*6364136223846793005 + 1442695040888963407
		for i := len(all) - 1; i > 0; i-- {
			r = r*6364136223846793005 + 1442695040888963407
			j := int(r>>33) % (i + 1)
			all[i], all[j] = all[j], all[i]
		}
	}
	DischargeAll(all, work, timeout, seed, 12)
	nTw := 80
	if *tier == "thorough" {
		nTw = 600 // thorough: many more discharged obligations are re-checked for vacuity
	}
	twins := VacuityTwins(all, work, seed, nTw)
	nTwins := 0
	for _, tw := range twins {
		nTwins++
		if tw.Status == "unsat" && !funcHasFailure(all, tw.TwinOf.Func) {
			fmt.Printf("CHECK-ERROR %s: vacuous proof: the obligation stays provable with an unconstrained conjunct added (contradictory assumptions)\n", tw.TwinOf.Name)
			broken++
		}
	}

	findings := loadFindings(filepath.Join(root, "known_findings.txt"))
	known := map[string]finding{}
	for _, f := range findings {
		if f.kind == "finding" && f.property == *prop {
			known[f.obligation] = f
		}
	}
	replayDir := filepath.Join(root, "replays", *prop)
	os.MkdirAll(replayDir, 0o755)

	nObl, nDis, nViol, nVac := 0, 0, 0, 0
	var solverMs int64
	bySolver := map[string]int{}
	byKind := map[string]int{}
	var samples []map[string]interface{}
	var violLines, knownLines []string
	seenKnown := map[string]bool{}
	sort.SliceStable(all, func(i, j int) bool { return all[i].Name < all[j].Name })
	// functions with an undischarged obligation: because a checked condition is
	// assumed afterwards, a failing check can make the rest of the function
	// unreachable; that is reported as the violation, not as a vacuity error
	failedFunc := map[string]bool{}
	for _, o := range all {
		if !o.ExpectSat && o.Status != "unsat" {
			failedFunc[o.Func] = true
		}
	}
	for _, o := range all {
		solverMs += o.Ms
		if o.ExpectSat {
			nVac++
			if o.Status == "unsat" && !failedFunc[o.Func] {
				fmt.Printf("CHECK-ERROR %s: vacuity probe failed (contract is contradictory or exit unreachable)\n", o.Name)
				broken++
			}
			continue
		}
		nObl++
		byKind[o.Kind]++
		if o.Status == "unsat" {
			nDis++
			bySolver[o.Solver]++
			if o.Ms > 6000 && os.Getenv("VERIF_SLOW") != "" {
				fmt.Printf("SLOW %6dms %s %s\n", o.Ms, o.Solver, o.Name)
			}
			if len(samples) < 6 && (o.Kind == "post" || o.Kind == "loop-inv-preserved" || o.Kind == "index" || o.Kind == "call-pre") {
				sz := 0
				if fi, err := os.Stat(o.File); err == nil {
					sz = int(fi.Size())
				}
				samples = append(samples, map[string]interface{}{"obligation": o.Name, "kind": o.Kind, "source": o.Src, "statement": o.Desc, "solver": o.Solver, "ms": o.Ms, "smt_bytes": sz})
			}
			continue
		}
		if kf, ok := known[o.Name]; ok {
			if !seenKnown[o.Name] {
				seenKnown[o.Name] = true
				knownLines = append(knownLines, fmt.Sprintf("KNOWN-FINDING: property=%s %s", *prop, kf.text))
			}
			continue
		}
		nViol++
		rp := filepath.Join(replayDir, sanitize(o.Name)+".json")
		rep := map[string]interface{}{
			"property": *prop, "failed_obligation": o.Name, "kind": o.Kind, "source": o.Src, "statement": o.Desc,
			"solver_status": o.Status, "solver": o.Solver, "solver_output": truncate(o.Output, 4000),
		}
		suffix := " no-failing-input-found"
		if o.Status != "sat" && panicKinds[o.Kind] {
			// the quantified background facts keep the solvers from answering `sat`;
			// look for a candidate input without them and let the replay on the real
			// code decide whether it is a genuine failing input
			if out, ok := modelWithoutQuantifiers(o, work, seed); ok {
				rep["model_search"] = "model found with quantified assumptions dropped (candidate only; validated by the replay)"
				o.Output = out
				rep["model"] = parseModel(o)
				if ok, detail := tryReplay(prog, o, rep); ok {
					suffix = ""
					rep["replay"] = detail
				} else {
					rep["replay"] = detail
				}
			}
		}
		if o.Status == "sat" {
			rep["model"] = parseModel(o)
			if ok, detail := tryReplay(prog, o, rep); ok {
				suffix = ""
				rep["replay"] = detail
			} else {
				rep["replay"] = detail
			}
		}
		jb, _ := json.MarshalIndent(rep, "", " ")
		os.WriteFile(rp, jb, 0o644)
		violLines = append(violLines, fmt.Sprintf("VIOLATION property=%s replay=%s obligation=%s status=%s%s", *prop, rp, o.Name, o.Status, suffix))
	}
	for _, l := range knownLines {
		fmt.Println(l)
	}
	for _, l := range violLines {
		fmt.Println(l)
	}

	// evidence
	var funcs []string
	var notes []string
	noteSeen := map[string]bool{}
	for _, r := range results {
		status := "verified"
		if r.Trusted != "" {
			status = "trusted: " + r.Trusted
		}
		funcs = append(funcs, fmt.Sprintf("%s [mode %s, %d obligations] %s", r.Name, r.Mode, len(r.Obls), status))
		for _, n := range r.Notes {
			s := r.Name + ": " + n
			if !noteSeen[s] {
				noteSeen[s] = true
				notes = append(notes, s)
			}
		}
	}
	trusted := []string{
		"govc VC generator (/verif/govc) and its memory model (component heap, slices as base/off/len/cap, 64-bit int/uint)",
		"golang.org/x/tools/go/ssa v0.29.0 (naive form) as the semantics of the Go source",
		"SMT solvers z3 4.8.12, z3 5.1.0 (z3-new), cvc5 1.0 (first definite answer wins)",
		"mode int functions: Go integers as mathematical integers, justified by a no-overflow obligation on every + - * / << and exact wrap semantics for conversions",
		"termination is claimed only for loops that carry a decreases clause",
	}
	trusted = append(trusted, scan...)
	assumptions := append([]string{}, pc.Assumptions...)
	assumptions = append(assumptions, notes...)
	for _, nc := range pc.NotCovered {
		assumptions = append(assumptions, "NOT COVERED: "+nc)
	}
	ev := map[string]interface{}{
		"property_id": *prop,
		"tier":        *tier,
		"seed":        seed,
		"level":       "proof",
		"coverage": map[string]interface{}{
			"obligations":          nObl,
			"discharged":           nDis,
			"discharged_by_solver": bySolver,
			"known_findings":       len(seenKnown),
			"obligations_by_kind":  byKind,
			"vacuity_probes":       nVac,
			"vacuity_twins":        nTwins,
			"functions_under_contract": funcs,
			"checker_cmd":          fmt.Sprintf("bin/govc check -property %s -tier %s", *prop, *tier),
			"trusted_base":         trusted,
			"solver_time_ms":       solverMs,
			"samples":              samples,
			"claim":                pc.Claim,
		},
		"assumptions": assumptions,
		"wall_s":      time.Since(start).Seconds(),
		"violations":  nViol,
	}
	os.MkdirAll(filepath.Join(root, "evidence"), 0o755)
	eb, _ := json.MarshalIndent(ev, "", " ")
	os.WriteFile(filepath.Join(root, "evidence", *prop+".json"), eb, 0o644)
	fmt.Printf("property %s tier %s: %d functions, %d obligations, %d discharged, %d known findings, %d violations, %d vacuity probes, %.1fs\n",
		*prop, *tier, len(results), nObl, nDis, len(seenKnown), nViol, nVac, time.Since(start).Seconds())
	cleanup()
	if broken > 0 {
		os.Exit(2)
	}
	if nViol > 0 {
		os.Exit(1)
	}
	if nObl == 0 {
		fmt.Println("CHECK-ERROR: no obligations generated")
		os.Exit(2)
	}
}

func hasProp(ps []string, id string) bool {
	for _, p := range ps {
		if p == id {
			return true
		}
	}
	return false
}

func truncate(s string, n int) string {
	if len(s) > n {
		return s[:n] + "…"
	}
	return s
}

// parseModel pairs the get-value answer (a list of (term value) pairs, in the
// order asked) with the model variable names.
func parseModel(o *Obligation) map[string]string {
	out := map[string]string{}
	text := o.Output
	i := strings.Index(text, "((")
	if i < 0 {
		return out
	}
	text = text[i+1:] // inside the outer list
	k := 0
	pos := 0
	for k < len(o.VC.modelVars) {
		// next pair
		for pos < len(text) && text[pos] != '(' {
			if text[pos] == ')' {
				return out
			}
			pos++
		}
		if pos >= len(text) {
			break
		}
		// matching close of the pair
		depth, end := 0, -1
		for j := pos; j < len(text); j++ {
			if text[j] == '(' {
				depth++
			} else if text[j] == ')' {
				depth--
				if depth == 0 {
					end = j
					break
				}
			}
		}
		if end < 0 {
			break
		}
		pair := text[pos+1 : end]
		// the value is the last top-level element of the pair
		d := 0
		split := -1
		for j := len(pair) - 1; j >= 0; j-- {
			c := pair[j]
			if c == ')' {
				d++
			} else if c == '(' {
				d--
			} else if (c == ' ' || c == '\n') && d == 0 {
				split = j
				break
			}
			if d == 0 && c == '(' {
				split = j - 1
				break
			}
		}
		if split >= 0 {
			out[o.VC.modelVars[k].Name] = strings.TrimSpace(pair[split+1:])
		}
		k++
		pos = end + 1
	}
	return out
}


// modelWithoutQuantifiers re-runs a failed obligation with every quantified
// assertion removed and returns the solver output if it is `sat`.
func modelWithoutQuantifiers(o *Obligation, work string, seed int) (string, bool) {
	var gv []string
	for _, mv := range o.VC.modelVars {
		gv = append(gv, mv.Term)
	}
	prelude := preludeText + strings.Join(o.VC.extraDecls, "\n") + "\n"
	text := o.Script.Render(prelude, o.Pos, o.Goal, gv)
	var keep []string
	lines := strings.Split(text, "\n")
	for i, l := range lines {
		// the goal itself (last assert) is kept even if quantified
		isGoal := strings.HasPrefix(l, "(assert (not ") && i >= len(lines)-5
		if strings.HasPrefix(l, "(assert") && (strings.Contains(l, "(forall ") || strings.Contains(l, "(exists ")) && !isGoal {
			continue
		}
		keep = append(keep, l)
	}
	file := filepath.Join(work, "qf_"+sanitize(o.Name)+".smt2")
	if err := os.WriteFile(file, []byte(strings.Join(keep, "\n")), 0o644); err != nil {
		return "", false
	}
	r := race(file, 10, seed, "z3-new")
	if r.status == "sat" {
		return r.output, true
	}
	return "", false
}


func funcHasFailure(all []*Obligation, fn string) bool {
	for _, o := range all {
		if o.Func == fn && !o.ExpectSat && o.Status != "unsat" {
			return true
		}
	}
	return false
}


// unverifiable is the pseudo-obligation reported when a function under
// contract cannot be verified at all on the current tree.
func unverifiable(fn, why string) *Obligation {
	return &Obligation{Name: fn + "#contract", Kind: "contract", Func: fn, Status: "unverifiable", Solver: "none", Pre: true,
		Desc: "every clause of the contract of " + fn + " (the function could not be verified: " + why + ")", Output: why}
}
