package main

import (
	"fmt"
	"go/ast"
	"go/token"
	"go/types"
	"os"
	"path/filepath"
	"sort"
	"strings"

	"golang.org/x/tools/go/packages"
	"golang.org/x/tools/go/ssa"
	"golang.org/x/tools/go/ssa/ssautil"
)

type Prog struct {
	fset          *token.FileSet
	pkgs          map[string]*packages.Package
	ssaProg       *ssa.Program
	ssaPkgs       map[string]*ssa.Package
	contracts     map[string]*ContractFile
	lib           *ContractFile
	importAliases map[string]map[string]string // pkg path -> alias -> import path
	repo          string
	recCache      map[*ssa.Function]bool
	immutable     map[string]bool
	errGlobals    map[string]int
	tables        map[string]*tableData
	byName        map[string]*types.Package
	globalInit    map[string]string
}

const modulePath = "github.com/google/wuffs"

func goEnv() []string {
	env := os.Environ()
	env = append(env, "GOFLAGS=-mod=mod", "GOPROXY=off", "GOSUMDB=off", "GOTOOLCHAIN=local", "CGO_ENABLED=1")
	return env
}

// LoadProg loads the given package directories (relative to repo) from the
// current working tree and builds naive-form SSA for them.
func LoadProg(repo string, pkgDirs []string, libPath string) (*Prog, error) {
	fset := token.NewFileSet()
	cfg := &packages.Config{
		Mode: packages.NeedName | packages.NeedFiles | packages.NeedCompiledGoFiles | packages.NeedImports |
			packages.NeedTypes | packages.NeedSyntax | packages.NeedTypesInfo | packages.NeedTypesSizes,
		Dir:  repo,
		Fset: fset,
		Env:  goEnv(),
	}
	var patterns []string
	for _, d := range pkgDirs {
		patterns = append(patterns, "./"+d)
	}
	initial, err := packages.Load(cfg, patterns...)
	if err != nil {
		return nil, err
	}
	var errs []string
	for _, p := range initial {
		for _, e := range p.Errors {
			errs = append(errs, e.Error())
		}
	}
	if len(errs) > 0 {
		return nil, fmt.Errorf("package load errors:\n%s", strings.Join(errs, "\n"))
	}
	prog, ssaPkgs := ssautil.Packages(initial, ssa.NaiveForm)
	prog.Build()
	p := &Prog{fset: fset, pkgs: map[string]*packages.Package{}, ssaProg: prog, ssaPkgs: map[string]*ssa.Package{},
		contracts: map[string]*ContractFile{}, importAliases: map[string]map[string]string{}, repo: repo,
		recCache: map[*ssa.Function]bool{}, immutable: map[string]bool{}}
	for i, ip := range initial {
		p.pkgs[ip.PkgPath] = ip
		p.ssaPkgs[ip.PkgPath] = ssaPkgs[i]
		al := map[string]string{}
		for _, f := range ip.Syntax {
			for _, im := range f.Imports {
				path := strings.Trim(im.Path.Value, "\"")
				if im.Name != nil {
					al[im.Name.Name] = path
				}
			}
		}
		p.importAliases[ip.PkgPath] = al
		// contract file
		dir := filepath.Join(repo, strings.TrimPrefix(ip.PkgPath, modulePath+"/"))
		cpath := filepath.Join(dir, "verif_contracts.go")
		if _, err := os.Stat(cpath); err == nil {
			cf, err := ParseContractFile(cpath)
			if err != nil {
				return nil, err
			}
			cf.PkgTypes = ip.Types
			p.contracts[ip.PkgPath] = cf
		}
	}
	if libPath != "" {
		lib, err := ParseContractFile(libPath)
		if err != nil {
			return nil, err
		}
		p.lib = lib
	}
	p.scanGlobals()
	return p, nil
}

// scanGlobals records package-level variables that are never written (nor
// have their address taken for anything but reads) outside package initialisers.
func (p *Prog) scanGlobals() {
	written := map[*ssa.Global]bool{}
	rootGlobal := func(v ssa.Value) *ssa.Global {
		for {
			switch x := v.(type) {
			case *ssa.Global:
				return x
			case *ssa.FieldAddr:
				v = x.X
			case *ssa.IndexAddr:
				v = x.X
			default:
				return nil
			}
		}
	}
	for fn := range ssautil.AllFunctions(p.ssaProg) {
		isInit := fn.Name() == "init" && fn.Parent() == nil
		for _, b := range fn.Blocks {
			for _, in := range b.Instrs {
				switch x := in.(type) {
				case *ssa.Store:
					if g := rootGlobal(x.Addr); g != nil && !isInit {
						written[g] = true
					}
					if g := rootGlobal(x.Val); g != nil {
						written[g] = true // address escapes
					}
				case *ssa.UnOp, *ssa.FieldAddr, *ssa.IndexAddr, *ssa.DebugRef:
				case *ssa.Slice:
					if g := rootGlobal(x.X); g != nil {
						// slicing a global array: treat as read-only only if element stores never happen;
						// conservatively mark written unless in init
						_ = g
					}
				default:
					for _, op := range in.Operands(nil) {
						if *op == nil {
							continue
						}
						if g := rootGlobal(*op); g != nil && !isInit {
							written[g] = true
						}
					}
				}
			}
		}
	}
	p.errGlobals = map[string]int{}
	var names []string
	for _, sp := range p.ssaProg.AllPackages() {
		for name, m := range sp.Members {
			if g, ok := m.(*ssa.Global); ok && !written[g] {
				full := sp.Pkg.Name() + "." + name
				p.immutable[full] = true
				if _, isIface := g.Type().(*types.Pointer).Elem().Underlying().(*types.Interface); isIface && types.TypeString(g.Type().(*types.Pointer).Elem(), nil) == "error" {
					// with a body: require an errors.New/fmt.Errorf initialiser; without (library): exported error values
					if init := sp.Func("init"); init != nil && len(init.Blocks) > 0 {
						if initialisedWithNewError(init, g) {
							names = append(names, full)
						}
					} else if ast.IsExported(name) {
						names = append(names, full)
					}
				}
			}
		}
	}
	sort.Strings(names)
	for i, n := range names {
		p.errGlobals[n] = i + 1
	}
}

func initialisedWithNewError(init *ssa.Function, g *ssa.Global) bool {
	for _, b := range init.Blocks {
		for _, in := range b.Instrs {
			st, ok := in.(*ssa.Store)
			if !ok || st.Addr != ssa.Value(g) {
				continue
			}
			v := st.Val
			for {
				switch x := v.(type) {
				case *ssa.MakeInterface:
					v = x.X
					continue
				case *ssa.ChangeInterface:
					v = x.X
					continue
				case *ssa.Call:
					if c := x.Call.StaticCallee(); c != nil {
						n := funcKeyQualified(c)
						return n == "errors.New" || n == "fmt.Errorf"
					}
				}
				return false
			}
		}
	}
	return false
}

// typesPkgByName finds a package (loaded or imported by a loaded one) by its name.
func (p *Prog) typesPkgByName(name string) *types.Package {
	if p.byName == nil {
		p.byName = map[string]*types.Package{}
		var visit func(tp *types.Package)
		seen := map[*types.Package]bool{}
		visit = func(tp *types.Package) {
			if seen[tp] {
				return
			}
			seen[tp] = true
			if _, ok := p.byName[tp.Name()]; !ok {
				p.byName[tp.Name()] = tp
			}
			for _, imp := range tp.Imports() {
				visit(imp)
			}
		}
		for _, pk := range p.pkgs {
			visit(pk.Types)
		}
	}
	return p.byName[name]
}

func (p *Prog) immutableGlobal(name string) bool { return p.immutable[name] }

func (p *Prog) isRecursive(fn *ssa.Function) bool {
	if r, ok := p.recCache[fn]; ok {
		return r
	}
	seen := map[*ssa.Function]bool{}
	var reach func(f *ssa.Function, depth int) bool
	reach = func(f *ssa.Function, depth int) bool {
		if depth > 8 {
			return true
		}
		for _, b := range f.Blocks {
			for _, in := range b.Instrs {
				if c, ok := in.(ssa.CallInstruction); ok {
					cal := c.Common().StaticCallee()
					if cal == nil {
						continue
					}
					if cal == fn {
						return true
					}
					if !seen[cal] {
						seen[cal] = true
						if reach(cal, depth+1) {
							return true
						}
					}
				}
			}
		}
		return false
	}
	r := reach(fn, 0)
	p.recCache[fn] = r
	return r
}

type tableData struct {
	dims []int64
	elem types.Type
	vals []*bigInt // row-major
}

// GlobalTable returns the constant contents of an immutable package-level array
// (of arrays) of integers whose initialiser is a composite literal of constants.
func (p *Prog) GlobalTable(name string) *tableData {
	if td, ok := p.tables[name]; ok {
		return td
	}
	if p.tables == nil {
		p.tables = map[string]*tableData{}
	}
	p.tables[name] = nil
	if !p.immutable[name] {
		return nil
	}
	pkgName, varName, _ := strings.Cut(name, ".")
	for _, pk := range p.pkgs {
		if pk.Name != pkgName {
			continue
		}
		obj, ok := pk.Types.Scope().Lookup(varName).(*types.Var)
		if !ok {
			continue
		}
		var dims []int64
		t := obj.Type()
		for {
			at, ok := t.Underlying().(*types.Array)
			if !ok {
				break
			}
			dims = append(dims, at.Len())
			t = at.Elem()
		}
		if len(dims) == 0 || len(dims) > 2 {
			return nil
		}
		if _, _, ok := intInfo(t); !ok {
			return nil
		}
		total := int64(1)
		for _, d := range dims {
			total *= d
		}
		if total > 1<<16 {
			return nil
		}
		// find the initialiser
		var init ast.Expr
		for _, f := range pk.Syntax {
			for _, d := range f.Decls {
				gd, ok := d.(*ast.GenDecl)
				if !ok || gd.Tok != token.VAR {
					continue
				}
				for _, sp := range gd.Specs {
					vs := sp.(*ast.ValueSpec)
					for i, n := range vs.Names {
						if n.Name == varName && i < len(vs.Values) {
							init = vs.Values[i]
						}
					}
				}
			}
		}
		cl, ok := init.(*ast.CompositeLit)
		if !ok {
			return nil
		}
		td := &tableData{dims: dims, elem: t, vals: make([]*bigInt, total)}
		for i := range td.vals {
			td.vals[i] = new(bigInt)
		}
		var fill func(cl *ast.CompositeLit, level int, base int64) bool
		fill = func(cl *ast.CompositeLit, level int, base int64) bool {
			stride := int64(1)
			for _, d := range dims[level+1:] {
				stride *= d
			}
			idx := int64(0)
			for _, el := range cl.Elts {
				if kv, ok := el.(*ast.KeyValueExpr); ok {
					tv, ok := pk.TypesInfo.Types[kv.Key]
					if !ok || tv.Value == nil {
						return false
					}
					k, _ := new(bigInt).SetString(tv.Value.ExactString(), 10)
					idx = k.Int64()
					el = kv.Value
				}
				if idx >= dims[level] {
					return false
				}
				if level+1 < len(dims) {
					sub, ok := el.(*ast.CompositeLit)
					if !ok || !fill(sub, level+1, base+idx*stride) {
						return false
					}
				} else {
					tv, ok := pk.TypesInfo.Types[el]
					if !ok || tv.Value == nil {
						return false
					}
					v, ok := new(bigInt).SetString(tv.Value.ExactString(), 10)
					if !ok {
						return false
					}
					td.vals[base+idx] = v
				}
				idx++
			}
			return true
		}
		if !fill(cl, 0, 0) {
			return nil
		}
		p.tables[name] = td
		return td
	}
	return nil
}

// FindFunc resolves a contract key within a package.
func (p *Prog) FindFunc(pkgPath, key string) *ssa.Function {
	sp := p.ssaPkgs[pkgPath]
	if sp == nil {
		return nil
	}
	if strings.HasPrefix(key, "(") {
		i := strings.Index(key, ").")
		recv := key[1:i]
		name := key[i+2:]
		ptr := strings.HasPrefix(recv, "*")
		recv = strings.TrimPrefix(recv, "*")
		tm, ok := sp.Members[recv].(*ssa.Type)
		if !ok {
			return nil
		}
		var rt types.Type = tm.Type()
		if ptr {
			rt = types.NewPointer(rt)
		}
		sel := p.ssaProg.MethodSets.MethodSet(rt).Lookup(sp.Pkg, name)
		if sel == nil {
			return nil
		}
		return p.ssaProg.MethodValue(sel)
	}
	base, rest, nested := strings.Cut(key, "$")
	fn, ok := sp.Members[base].(*ssa.Function)
	if !ok {
		return nil
	}
	if nested {
		for _, af := range fn.AnonFuncs {
			if strings.TrimPrefix(af.Name(), fn.Name()+"$") == rest {
				return af
			}
		}
		return nil
	}
	return fn
}

// allFuncs lists the functions (and methods) declared in a package, by key.
func (p *Prog) allFuncs(pkgPath string) map[string]*ssa.Function {
	out := map[string]*ssa.Function{}
	sp := p.ssaPkgs[pkgPath]
	if sp == nil {
		return out
	}
	for _, m := range sp.Members {
		switch x := m.(type) {
		case *ssa.Function:
			if x.Synthetic == "" || x.Name() == "init" {
				out[funcKey(x)] = x
			}
		case *ssa.Type:
			for _, recv := range []types.Type{x.Type(), types.NewPointer(x.Type())} {
				ms := p.ssaProg.MethodSets.MethodSet(recv)
				for i := 0; i < ms.Len(); i++ {
					f := p.ssaProg.MethodValue(ms.At(i))
					if f != nil && f.Pkg == sp && f.Synthetic == "" {
						out[funcKey(f)] = f
					}
				}
			}
		}
	}
	return out
}

func sortedKeys(m map[string]*ssa.Function) []string {
	var ks []string
	for k := range m {
		ks = append(ks, k)
	}
	sort.Strings(ks)
	return ks
}

var _ = ast.NewIdent


type workItem struct {
	key string
	fn  *ssa.Function
	fc  *FuncContract
}

// Expand resolves a contract key to the functions it covers. A key "f$*"
// covers every function literal nested in f (optionally filtered by parameter names).
func (p *Prog) Expand(pkgPath, key string, fc *FuncContract) ([]workItem, bool) {
	if strings.HasSuffix(key, "$*") {
		base := p.FindFunc(pkgPath, strings.TrimSuffix(key, "$*"))
		if base == nil {
			return nil, false
		}
		var out []workItem
		for _, af := range base.AnonFuncs {
			if len(fc.ParamNames) > 0 {
				if len(af.Params) != len(fc.ParamNames) {
					continue
				}
				ok := true
				for i, prm := range af.Params {
					if prm.Name() != fc.ParamNames[i] {
						ok = false
					}
				}
				if !ok {
					continue
				}
			}
			out = append(out, workItem{funcKey(af), af, fc})
		}
		return out, len(out) > 0
	}
	fn := p.FindFunc(pkgPath, key)
	if fn == nil {
		return nil, false
	}
	return []workItem{{key, fn, fc}}, true
}
