#!/bin/bash
# usage: seedconfirm.sh <worktree> <mutK> <dest id, e.g. C15_m4>
# Confirms a seeded change produced by a sub-agent in its scratch worktree:
#   with the change: builds, the existing tests named in meta.json pass, the demonstration fails;
#   without it: the demonstration passes.
# On success copies patch.diff, the demonstration and meta.json (+ what was run) to /verif/seeded/<dest>.
set -u
wt=$1; m=$2; dest=$3
export GOFLAGS=-mod=mod GOPROXY=off GOSUMDB=off GOTOOLCHAIN=local
cd "$wt" || exit 3
git checkout -q -- . || exit 3
sd="_seed/$m"
tests=$(python3 -c "import json;print(json.load(open('$sd/meta.json'))['existing_tests_cmd'])")
tests=$(echo "$tests" | sed -E 's/go vet [^&;]*(&&|;) *//g; s/ +\((also|all)[^)]*\) *$//; s/   \(.*$//')
demo=$(python3 -c "import json;print(json.load(open('$sd/meta.json'))['demo_cmd'])")
log=$(mktemp)
echo "== demo on unchanged code (must pass)" | tee -a $log
bash -c "$demo" >>$log 2>&1; e0=$?
# some demo commands end with `; rm ...`, which hides the exit code: look at go test's verdict instead
grep -q -E "^(--- FAIL|FAIL|panic:)" $log && e0=1
echo "   exit=$e0" | tee -a $log
git clean -fdq -e _seed
n0=$(grep -c -E "^(--- FAIL|FAIL)" $log)
git apply "$sd/patch.diff" || { echo "patch does not apply"; exit 3; }
echo "== existing tests with the change (must pass)" | tee -a $log
log2=$(mktemp)
bash -c "$tests" >$log2 2>&1; e1=$?
grep -q -E "^(--- FAIL|FAIL)" $log2 && e1=1
tail -5 $log2 >> $log
echo "   exit=$e1" | tee -a $log
git clean -fdq -e _seed
echo "== demo with the change (must fail)" | tee -a $log
log3=$(mktemp)
timeout 600 bash -c "$demo" >$log3 2>&1; e2=$?
grep -q -E "^(--- FAIL|FAIL|panic:)" $log3 && e2=1
tail -15 $log3 >> $log
echo "   exit=$e2" | tee -a $log
git checkout -q -- .
git clean -fdq -e _seed
ok=0
if [ $e0 -eq 0 ] && [ $e1 -eq 0 ] && [ $e2 -ne 0 ]; then ok=1; fi
if [ $ok -eq 1 ]; then
  mkdir -p /verif/seeded/$dest
  cp $sd/patch.diff /verif/seeded/$dest/
  cp $sd/meta.json /verif/seeded/$dest/
  for f in $sd/*; do case "$f" in */patch.diff|*/meta.json) ;; *) cp -r "$f" /verif/seeded/$dest/;; esac; done
  cp $log /verif/seeded/$dest/confirm.log
  echo "CONFIRMED -> /verif/seeded/$dest"
else
  echo "NOT CONFIRMED (unchanged-demo exit=$e0, tests exit=$e1, changed-demo exit=$e2); log:"
  cat $log; tail -20 $log2
fi
rm -f $log $log2 $log3
