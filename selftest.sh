#!/bin/bash
# Must-fail corpus: every seeded change that DESIGN.md lists as caught must still be
# reported (>= 1 VIOLATION) by the named property's quick check. Runs each in an
# isolated scratch worktree (seedtest.sh); prints MISSED for a regression.
# usage: selftest.sh [property ...]   (default: all)
cd "$(dirname "$0")"
expect="
C01_m1:C01 C01_m6:C01 C02_m3:C02 C02_m5:C02 C06_m1:C06 C06_m2:C06 C06_m3:C06 C06_m4:C06 C06_m5:C06
C11_m1:C11 C11_m3:C11 C11_m4:C11 C12_m1:C12 C12_m2:C12 C12_m3:C12 C12_m4:C12 C12_m5:C12
C13_m1:C13 C13_m2:C13 C13_m4:C13 C13_m5:C13
C14_m1:C14 C14_m2:C14 C14_m4:C14 C14_m5:C14 C14_m6:C14
C15_m1:C15 C15_m2:C15 C15_m3:C15 C15_m4:C15 C15_m5:C15
C16_m1:C16 C16_m2:C16 C16_m3:C16 C16_m4:C16 C16_m5:C16
C17_m1:C17 C17_m2:C17 C17_m3:C17 C17_m4:C17 C17_m5:C17
C18_m1:C18 C18_m2:C18 C18_m3:C18 C18_m4:C18 C18_m5:C18
C19_m1:C19 C19_m2:C19 C19_m3:C19 C19_m4:C19 C19_m5:C19 C19_m6:C19 C19_m7:C19
"
# SELFTEST_JOBS=n runs n seeds side by side (each check already uses about a dozen solver processes)
one() {
  e=$1; s=${e%%:*}; p=${e##*:}
  n=$(./seedtest.sh $s $p 2>&1 | grep -c "^VIOLATION")
  if [ "$n" -ge 1 ]; then echo "caught  $s by $p ($n)"; else echo "MISSED  $s by $p"; fi
}
export -f one
sel=""
for e in $expect; do
  p=${e##*:}
  if [ $# -gt 0 ]; then case " $* " in *" $p "*) ;; *) continue;; esac; fi
  sel="$sel $e"
done
out=$(printf '%s\n' $sel | xargs -P ${SELFTEST_JOBS:-1} -I{} bash -c 'one {}')
echo "$out"
if echo "$out" | grep -q "^MISSED"; then exit 1; fi
exit 0
