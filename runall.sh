#!/bin/sh
# Runs every claimed quick check (ids from MANIFEST.json) and prints a summary.
cd "$(dirname "$0")"
ids=$(python3 -c "import json; print(' '.join(c['property_id'] for c in json.load(open('MANIFEST.json'))['checks']))")
rc=0
for id in $ids; do
  out=$(bin/govc check -property $id -tier ${VERIF_TIER:-quick}); e=$?
  echo "$out" | grep -E "^(VIOLATION|KNOWN|CHECK-ERROR|STALE|property)" | cut -c1-260
  echo "  $id exit=$e"
  [ $e -ne 0 ] && rc=1
done
exit $rc
