#!/bin/bash
# usage: seedall.sh <seed> <prop> [<seed> <prop> ...]  -> one summary line per seed
while [ $# -ge 2 ]; do
  s=$1; p=$2; shift 2
  out=$(./seedtest.sh $s $p 2>&1)
  n=$(echo "$out" | grep -c "^VIOLATION")
  first=$(echo "$out" | grep "^VIOLATION" | head -3 | sed -E 's/.*obligation=([^ ]*).*/\1/' | tr '\n' ' ')
  other=$(echo "$out" | grep -E "^(CHECK-ERROR|STALE)" | head -2 | cut -c1-160 | tr '\n' ' ')
  echo "$s $p violations=$n $first $other"
done
