#!/bin/sh
# Builds the govc verifier from the vendored sources (offline).
set -e
cd "$(dirname "$0")/govc"
export GOFLAGS=-mod=vendor GOPROXY=off GOSUMDB=off GOTOOLCHAIN=local CGO_ENABLED=0
mkdir -p ../bin
go build -o ../bin/govc .
